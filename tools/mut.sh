#!/bin/bash
# usage: tools/mut.sh <patch.diff> [--tests] <check> [<check> ...]
# Applies the patch to a scratch worktree of /repo HEAD (outside /repo and /verif), optionally runs the repository's
# test suite there, runs the named checks against it (quick tier) and removes the worktree.
set -u
patch="$(realpath "$1")"; shift
runtests=0
if [ "${1:-}" = "--tests" ]; then runtests=1; shift; fi
wt="/tmp/a5-mut-$$"
git -C /repo worktree add -q --detach "$wt" HEAD || exit 2
trap 'git -C /repo worktree remove --force "$wt" >/dev/null 2>&1' EXIT
if ! git -C "$wt" apply "$patch"; then echo "PATCH DOES NOT APPLY"; exit 2; fi
if [ $runtests = 1 ]; then
  (cd "$wt" && /venv/bin/python -m pytest -q -p no:cacheprovider --timeout=900 -x 2>&1 | tail -1)
fi
cd /verif
for c in "$@"; do
  out=$(VERIF_REPO="$wt" ./check "$c" --tier "${TIER:-quick}" --seed "${VERIF_SEED:-1}" 2>&1)
  rc=$?
  echo "== $c rc=$rc $(echo "$out" | grep -m1 -A1 VIOLATION | tr '\n' ' ' | cut -c1-260)"
  [ $rc = 2 ] && echo "$out" | grep -m2 HARNESS | cut -c1-300
done
