#!/usr/bin/env python3
"""Prints the 'measured budgets' table of DESIGN §13: quick figures from evidence/*.json, thorough figures from the
log files given on the command line (lines 'Cxx tier=thorough seed=.. evaluations=.. distinct_nontrivial=.. wall=..s';
later files win)."""
import json, os, re, sys
V = os.path.dirname(os.path.dirname(os.path.abspath(__file__)))
th = {}
for f in sys.argv[1:]:
    for line in open(f, errors="replace"):
        m = re.match(r"(C\d\d) tier=thorough seed=\d+ evaluations=(\d+) distinct_nontrivial=(\d+) violations=0 wall=([\d.]+)s", line)
        if m:
            th[m.group(1)] = (int(m.group(2)), int(m.group(3)), float(m.group(4)))
print("| Check | quick: cases | distinct non-trivial | wall s | thorough: cases | distinct non-trivial | wall s |")
print("|---|---|---|---|---|---|---|")
for i in range(1, 21):
    c = f"C{i:02d}"
    e = json.load(open(os.path.join(V, "evidence", c + ".json")))
    cov = e.get("coverage", {})
    q = (cov.get("evaluations", e.get("evaluations")), cov.get("distinct_nontrivial", e.get("distinct_nontrivial")), cov.get("wall_s", e.get("wall_s")))
    t = th.get(c, ("-", "-", "-"))
    f = lambda x: f"{x:,}" if isinstance(x, int) else (f"{x:.0f}" if isinstance(x, float) else str(x))
    print(f"| {c} | {f(q[0])} | {f(q[1])} | {f(q[2])} | {f(t[0])} | {f(t[1])} | {f(t[2])} |")
