#!/usr/bin/env python3
"""Confirm a seeded change and file it under /verif/seeded/<id>/.

  tools/seed.py add <id> --patch P --demo D --property C09 --needs "..." --checks C09,C08 [--origin sub-agent|own]

In a scratch worktree of /repo HEAD (under /tmp, removed afterwards) it confirms that (a) the demo passes on the
clean tree, (b) the repository's 925 tests pass with the patch, (c) the demo fails with the patch, then runs the named
checks (quick tier) against the patched tree and records everything in meta.json.
"""
import argparse, json, os, shutil, subprocess, sys, tempfile

VERIF = os.path.dirname(os.path.dirname(os.path.abspath(__file__)))


def sh(cmd, cwd=None, env=None, timeout=3600):
    p = subprocess.run(cmd, cwd=cwd, env=env, shell=isinstance(cmd, str), capture_output=True, text=True, timeout=timeout)
    return p.returncode, (p.stdout + p.stderr)


def main():
    ap = argparse.ArgumentParser()
    ap.add_argument("cmd")
    ap.add_argument("id")
    ap.add_argument("--patch", required=True)
    ap.add_argument("--demo", required=True)
    ap.add_argument("--property", required=True)
    ap.add_argument("--needs", required=True)
    ap.add_argument("--checks", default="")
    ap.add_argument("--origin", default="sub-agent")
    ap.add_argument("--tier", default="quick")
    a = ap.parse_args()
    patch, demo = os.path.realpath(a.patch), os.path.realpath(a.demo)
    wt = tempfile.mkdtemp(prefix="a5-seed-", dir="/tmp")
    os.rmdir(wt)
    rc, out = sh(["git", "-C", "/repo", "worktree", "add", "-q", "--detach", wt, "HEAD"])
    assert rc == 0, out
    meta = {"id": a.id, "breaks_property": a.property, "needs_to_manifest": a.needs, "origin": a.origin,
            "repo_head": sh(["git", "-C", "/repo", "rev-parse", "--short", "HEAD"])[1].strip(), "confirmation": {}, "checks": {}}
    ok = True
    try:
        env = dict(os.environ, PYTHONDONTWRITEBYTECODE="1")
        rc, out = sh(["/venv/bin/python", demo], cwd=wt, env=env)
        meta["confirmation"]["demo_on_clean_tree"] = {"rc": rc, "tail": out.strip()[-200:]}
        ok &= rc == 0
        rc, out = sh(["git", "-C", wt, "apply", patch])
        assert rc == 0, "patch does not apply: " + out
        rc, out = sh(["/venv/bin/python", "-m", "pytest", "-q", "-p", "no:cacheprovider", "--timeout=900"], cwd=wt, env=env)
        meta["confirmation"]["repo_tests_with_patch"] = {"rc": rc, "tail": out.strip().splitlines()[-1] if out.strip() else ""}
        ok &= rc == 0
        rc, out = sh(["/venv/bin/python", demo], cwd=wt, env=env)
        meta["confirmation"]["demo_with_patch"] = {"rc": rc, "tail": out.strip()[-300:]}
        ok &= rc != 0
        for c in [x for x in a.checks.split(",") if x]:
            env2 = dict(os.environ, VERIF_REPO=wt)
            rc, out = sh(["./check", c, "--tier", a.tier], cwd=VERIF, env=env2)
            kind = ""
            for line in out.splitlines():
                if line.strip().startswith("kind="):
                    kind = line.strip()[:200]
                    break
            meta["checks"][c] = {"cmd": f"VERIF_REPO=<patched tree> ./check {c} --tier {a.tier}", "rc": rc,
                                 "verdict": {0: "missed", 1: "caught", 2: "harness error"}.get(rc, str(rc)), "first_violation": kind}
    finally:
        sh(["git", "-C", "/repo", "worktree", "remove", "--force", wt])
    meta["confirmed"] = bool(ok)
    d = os.path.join(VERIF, "seeded", a.id)
    os.makedirs(d, exist_ok=True)
    shutil.copy(patch, os.path.join(d, "patch.diff"))
    shutil.copy(demo, os.path.join(d, "demo.py"))
    with open(os.path.join(d, "meta.json"), "w") as f:
        json.dump(meta, f, indent=1)
    print(json.dumps({"id": a.id, "confirmed": meta["confirmed"], "checks": {k: v["verdict"] for k, v in meta["checks"].items()},
                      "conf": {k: v["rc"] for k, v in meta["confirmation"].items()}}))
    return 0 if ok else 1


if __name__ == "__main__":
    sys.exit(main())
