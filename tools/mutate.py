#!/usr/bin/env python3
"""Mutation study: how many single-site mutants of a5 that survive the repository's own tests are killed by /verif?

  tools/mutate.py --n 300 --seed 1 --workers 4 --out .work/mutation/run1.jsonl

Mutation operators (AST level, one site per mutant): comparison flips (< <=, > >=, == !=), arithmetic swaps (+ -, * /),
numeric constant tweaks (int n -> n+1 / n-1, float x -> x*(1+1e-3)), boolean operator swap (and/or), `not` removal.
For every sampled site: (1) the mutant is written into a private scratch worktree of /repo HEAD (outside /repo and
/verif); (2) the repository's suite runs there (`pytest -x`); a failing suite means "killed by the repository's tests"
and the mutant is dropped; (3) survivors are judged by the quick tier of the checks mapped to the mutated file, stopping
at the first check that reports a VIOLATION. Worktrees are removed at the end.
"""
import argparse
import ast
import copy
import json
import multiprocessing
import os
import random
import subprocess
import sys
import time

V = os.path.dirname(os.path.dirname(os.path.abspath(__file__)))

FILES = {
    "a5/core/serialization.py": ["C05", "C06", "C10", "C20", "C08", "C09", "C07"],
    "a5/core/cell_info.py": ["C20", "C10", "C04"],
    "a5/core/compact.py": ["C08", "C09", "C10"],
    "a5/core/hex.py": ["C19"],
    "a5/core/hilbert.py": ["C18", "C02", "C01", "C07"],
    "a5/core/tiling.py": ["C18", "C03", "C02", "C12"],
    "a5/core/pentagon.py": ["C18", "C03", "C04", "C11"],
    "a5/core/cell.py": ["C01", "C02", "C12", "C03", "C11", "C04"],
    "a5/core/coordinate_transforms.py": ["C01", "C02", "C12", "C15", "C13"],
    "a5/core/origin.py": ["C01", "C02", "C13", "C03"],
    "a5/core/constants.py": ["C13", "C03", "C04"],
    "a5/projections/dodecahedron.py": ["C13", "C14", "C03", "C04", "C01"],
    "a5/projections/polyhedral.py": ["C13", "C14", "C04"],
    "a5/projections/crs.py": ["C13", "C03"],
    "a5/projections/gnomonic.py": ["C13", "C03"],
    "a5/projections/authalic.py": ["C15", "C04"],
    "a5/geometry/pentagon.py": ["C01", "C03", "C12", "C18"],
    "a5/geometry/spherical_polygon.py": ["C13", "C14", "C04"],
    "a5/math/vec3.py": ["C13", "C14", "C04", "C01"],
    "a5/math/vec2.py": ["C13", "C18", "C02", "C12"],
    "a5/math/quat.py": ["C13", "C01"],
}

CMP = {ast.Lt: ast.LtE, ast.LtE: ast.Lt, ast.Gt: ast.GtE, ast.GtE: ast.Gt, ast.Eq: ast.NotEq, ast.NotEq: ast.Eq}
BIN = {ast.Add: ast.Sub, ast.Sub: ast.Add, ast.Mult: ast.Div, ast.Div: ast.Mult, ast.LShift: ast.RShift, ast.RShift: ast.LShift,
       ast.FloorDiv: ast.Mult, ast.Mod: ast.FloorDiv}


def sites(tree):
    """-> list of (node index in ast.walk order, kind, variant)."""
    out = []
    for i, node in enumerate(ast.walk(tree)):
        if isinstance(node, ast.Compare) and len(node.ops) == 1 and type(node.ops[0]) in CMP:
            out.append((i, "cmp", 0))
        elif isinstance(node, ast.BinOp) and type(node.op) in BIN:
            out.append((i, "bin", 0))
        elif isinstance(node, ast.Constant) and isinstance(node.value, (int, float)) and not isinstance(node.value, bool):
            out.append((i, "const", 0))
            out.append((i, "const", 1))
        elif isinstance(node, ast.BoolOp):
            out.append((i, "bool", 0))
        elif isinstance(node, ast.UnaryOp) and isinstance(node.op, ast.Not):
            out.append((i, "not", 0))
    return out


def apply(tree, site):
    idx, kind, variant = site
    tree = copy.deepcopy(tree)
    node = list(ast.walk(tree))[idx]
    if kind == "cmp":
        node.ops = [CMP[type(node.ops[0])]()]
        desc = f"compare -> {type(node.ops[0]).__name__}"
    elif kind == "bin":
        node.op = BIN[type(node.op)]()
        desc = f"binop -> {type(node.op).__name__}"
    elif kind == "const":
        v = node.value
        if isinstance(v, int):
            node.value = v + 1 if variant == 0 else v - 1
        else:
            node.value = (v * (1 + 1e-3) if variant == 0 else v * (1 - 1e-3)) if v else (1e-9 if variant == 0 else -1e-9)
        desc = f"const {v!r} -> {node.value!r}"
    elif kind == "bool":
        node.op = ast.Or() if isinstance(node.op, ast.And) else ast.And()
        desc = f"boolop -> {type(node.op).__name__}"
    else:
        # replace `not x` by `x`
        for parent in ast.walk(tree):
            for field, val in ast.iter_fields(parent):
                if val is node:
                    setattr(parent, field, node.operand)
                elif isinstance(val, list):
                    for j, x in enumerate(val):
                        if x is node:
                            val[j] = node.operand
        desc = "not removed"
    ast.fix_missing_locations(tree)
    return ast.unparse(tree), desc, getattr(node, "lineno", 0)


def sh(cmd, cwd=None, env=None, timeout=1800):
    try:
        p = subprocess.run(cmd, cwd=cwd, env=env, capture_output=True, text=True, timeout=timeout)
        return p.returncode, p.stdout + p.stderr
    except subprocess.TimeoutExpired:
        return 124, "timeout"


def worker(args):
    wid, jobs, checks_jobs = args
    wt = f"/tmp/a5-mutants-w{wid}-{os.getpid()}"
    sh(["git", "-C", "/repo", "worktree", "add", "-q", "--detach", wt, "HEAD"])
    results = []
    try:
        for mid, relfile, src, desc, line in jobs:
            path = os.path.join(wt, relfile)
            orig = open(path).read()
            rec = {"id": mid, "file": relfile, "line": line, "mutation": desc}
            try:
                open(path, "w").write(src)
                env = dict(os.environ, PYTHONDONTWRITEBYTECODE="1")
                t0 = time.time()
                rc, out = sh(["/venv/bin/python", "-m", "pytest", "-x", "-q", "-p", "no:cacheprovider", "--timeout=300"], cwd=wt, env=env, timeout=900)
                rec["repo_tests"] = "pass" if rc == 0 else "fail"
                rec["repo_tests_s"] = round(time.time() - t0, 1)
                if rc == 0:
                    rec["killed_by"] = None
                    rec["ran"] = []
                    for chk in FILES[relfile]:
                        env2 = dict(os.environ, VERIF_REPO=wt, VERIF_JOBS=str(checks_jobs))
                        rc2, out2 = sh(["./check", chk, "--tier", "quick"], cwd=V, env=env2, timeout=1800)
                        rec["ran"].append([chk, rc2])
                        if rc2 == 1:
                            rec["killed_by"] = chk
                            for ln in out2.splitlines():
                                if ln.strip().startswith("kind="):
                                    rec["violation"] = ln.strip()[:160]
                                    break
                            break
            finally:
                open(path, "w").write(orig)
            results.append(rec)
            print(json.dumps(rec), flush=True)
    finally:
        sh(["git", "-C", "/repo", "worktree", "remove", "--force", wt])
    return results


def main():
    ap = argparse.ArgumentParser()
    ap.add_argument("--n", type=int, default=200)
    ap.add_argument("--seed", type=int, default=1)
    ap.add_argument("--workers", type=int, default=4)
    ap.add_argument("--checks-jobs", type=int, default=4)
    ap.add_argument("--out", default=os.path.join(V, ".work", "mutation", "run.jsonl"))
    a = ap.parse_args()
    rng = random.Random(a.seed)          # sampling of mutation sites only (tooling, not a property check)
    allsites = []
    for rel in FILES:
        src = open(os.path.join("/repo", rel)).read()
        tree = ast.parse(src)
        for s in sites(tree):
            allsites.append((rel, s))
    rng.shuffle(allsites)
    jobs = []
    for k, (rel, s) in enumerate(allsites[: a.n]):
        tree = ast.parse(open(os.path.join("/repo", rel)).read())
        try:
            src, desc, line = apply(tree, s)
        except Exception as e:  # noqa: BLE001
            continue
        jobs.append((f"m{a.seed}-{k:04d}", rel, src, desc, line))
    print(f"# {len(allsites)} sites in {len(FILES)} files; sampled {len(jobs)}", flush=True)
    chunks = [(w, jobs[w::a.workers], a.checks_jobs) for w in range(a.workers)]
    os.makedirs(os.path.dirname(os.path.abspath(a.out)), exist_ok=True)
    with multiprocessing.Pool(a.workers) as pool:
        res = [r for part in pool.map(worker, chunks) for r in part]
    with open(a.out, "w") as f:
        for r in res:
            f.write(json.dumps(r) + "\n")
    surv = [r for r in res if r["repo_tests"] == "pass"]
    killed = [r for r in surv if r.get("killed_by")]
    print(f"# mutants {len(res)}: killed by repository tests {len(res) - len(surv)}, survivors {len(surv)}, of which killed by /verif quick tier {len(killed)}")
    for r in surv:
        if not r.get("killed_by"):
            print("# SURVIVOR", r["file"], r["line"], r["mutation"])


if __name__ == "__main__":
    sys.exit(main())
