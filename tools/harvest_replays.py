#!/usr/bin/env python3
"""For every confirmed seeded change, turn the violation its property's check (or the first check that catches it)
reports into a committed replay file: replays/<check>/seeded-<id>.json. A replay is kept only if it FAILS on the patched
tree and PASSES on /repo, so the replay tier re-detects each seeded defect in seconds if it ever comes back."""
import glob, json, os, re, shutil, subprocess, sys, tempfile
V = os.path.dirname(os.path.dirname(os.path.abspath(__file__)))


def sh(cmd, cwd=None, env=None):
    p = subprocess.run(cmd, cwd=cwd, env=env, capture_output=True, text=True)
    return p.returncode, p.stdout + p.stderr


def main():
    only = set(sys.argv[1:])
    for m in sorted(glob.glob(os.path.join(V, "seeded", "*", "meta.json"))):
        d = json.load(open(m))
        sid = d["id"]
        if only and sid not in only:
            continue
        caught = [c for c, v in d["checks"].items() if v["verdict"] == "caught"]
        if not caught:
            continue
        chk = d["breaks_property"] if d["breaks_property"] in caught else caught[0]
        dest = os.path.join(V, "replays", chk, f"seeded-{sid}.json")
        if os.path.exists(dest):
            continue
        wt = tempfile.mkdtemp(prefix="a5-harv-", dir="/tmp"); os.rmdir(wt)
        rc, out = sh(["git", "-C", "/repo", "worktree", "add", "-q", "--detach", wt, "HEAD"])
        try:
            rc, out = sh(["git", "-C", wt, "apply", os.path.join(V, "seeded", sid, "patch.diff")])
            if rc:
                print(sid, "patch does not apply"); continue
            env = dict(os.environ, VERIF_REPO=wt)
            path = None
            for seed in ("1", "2", "3"):
                rc, out = sh(["./check", chk, "--tier", "quick", "--seed", seed], cwd=V, env=env)
                mm = re.search(r"VIOLATION property=\S+ replay=(\S+)", out)
                if mm:
                    path = mm.group(1); break
            if not path:
                print(sid, chk, "no violation reported"); continue
            rc1, _ = sh(["./check", chk, "--replay", path], cwd=V, env=env)
            rc2, _ = sh(["./check", chk, "--replay", path], cwd=V, env=dict(os.environ))
            if rc1 == 1 and rc2 == 0:
                os.makedirs(os.path.dirname(dest), exist_ok=True)
                rec = json.load(open(path)); rec["seeded_change"] = sid
                json.dump(rec, open(dest, "w"), indent=1)
                print(sid, chk, "replay kept")
            else:
                print(sid, chk, f"replay not kept (patched rc={rc1}, clean rc={rc2})")
        finally:
            sh(["git", "-C", "/repo", "worktree", "remove", "--force", wt])


if __name__ == "__main__":
    main()
