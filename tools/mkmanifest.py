#!/usr/bin/env python3
"""Regenerates /verif/MANIFEST.json from the table below (kept in one place so it stays valid)."""
import json, os
VERIF = os.path.dirname(os.path.dirname(os.path.abspath(__file__)))

CHECKS = {
 "C01": dict(
  technique="coverage-directed boundary anchors (lib/boundary.py), exact res-0 face sweep along all dodecahedron edges, 90 near-edge points per generated cell; property-based testing: Hypothesis point/resolution generators aimed at poles, frame points, antimeridian, cell corners/edges; independent spherical point-in-ring oracle with adaptive segment refinement",
  text="Generated (point, resolution) pairs (about half adversarial: poles, the 62 dodecahedron frame points at 1e-12..1e-1 rad, antimeridian, wrapped longitudes, corner/edge huggers) are sent through lonlat_to_cell and judged by a point-in-polygon test written independently of the library on the cell's own boundary ring. Sampled, not exhaustive; tolerance 4.3e-5 cell widths.",
  note="Trusts cell_to_boundary at 64 segments per edge as the cell's boundary (its own consistency is C03/C04/C12) and the harness's closed-form authalic latitude.", ref="DESIGN.md §6 C01"),
 "C02": dict(
  technique="coverage-directed boundary anchors and branch-distance (comparison-operand) search for thin slabs; property-based testing: complete enumeration of all cells res<=5/7 plus Hypothesis structured ids and located cells; round-trip cell->centre->cell with an independent containment oracle",
  text="Every cell of res 0..5 (quick) / 0..7 (thorough, 327,672 cells) plus generated cells up to res 29 (structured S, poles, frame points, antimeridian): centre in range, strictly inside own ring, maps back to the same id. Exhaustive on the enumerated levels only.",
  note="Ring at 8/64 segments per edge stands for the true boundary.", ref="DESIGN.md §6 C02"),
 "C03": dict(
  technique="along-edge beyond-edge probes, coverage-directed boundary anchors and branch-distance (comparison-operand) search for thin slabs; property-based testing: complete per-level manifold certificate (directed-edge matching, Euler characteristic, area sum) for res<=5/7 plus Hypothesis-sampled edge-neighbour checks to res 29",
  text="For each level up to 5 (quick) / 7 (thorough) all rings are collected and certified as a closed 2-manifold partition (each directed edge once, its reverse once, V-E+F=2, areas sum to 4pi). Beyond that, generated cells (poles, face edges/vertices, antimeridian, structured ids) have all five edges checked against the lonlat_to_cell-discovered neighbour, vertex for vertex at 4 segments. Corner sweep: points 0.1-0.2 % inside every vertex of every cell of res 8 (all 983,040 thorough; every 8th quick) must come back in a cell containing them.",
  note="Partition is certified only for res<=7; sampled beyond. Vertex coincidence within 1e-6 cell widths, edge points within 1e-4 + float floor.", ref="DESIGN.md §6 C03"),
 "C04": dict(
  technique="cells straddling coverage-discovered branch boundaries of the projection code and branch-distance (comparison-operand) search for thin slabs; property-based testing: enumeration of all cells res<=4/6 plus Hypothesis cells to res 29; independent spherical area (two formulas) with Richardson extrapolation over the segment count and closed-form authalic latitude",
  text="Each cell's area is measured from its boundary ring at 32/64 (then 64/128) segments with an area formula independent of the library and compared with 4pi/N(r) to 1e-6 (+ float floor of the returned degrees). A violation needs two agreeing estimates; otherwise the case is counted inconclusive.",
  note="Assumes the discretisation error of the ring is O(1/k^2) (Richardson); geodetic->authalic by the closed WGS84 form.", ref="DESIGN.md §6 C04"),
 "C05": dict(
  technique="property-based testing: complete enumeration (res<=7/9) + Hypothesis bit-pattern generators + atheris fuzzing, differential against an independent id-layout model and encode/decode round-trips",
  text="Every (face,segment,S) for res<=7 (quick) / <=9 (thorough) is encoded, decoded and compared with an independent layout model; res 2..29 are sampled with S patterns aimed at the shift/mask arithmetic; raw 64-bit values and out-of-range S are generated too. Exhaustive only on the enumerated sub-domain; sampled beyond. Resolution 30 is a recorded known finding (encode raises).",
  note="Trusts the documented id layout (pinned by the repository's own mask table and hex fixtures) as the specification; S is sampled, not symbolic.", ref="DESIGN.md §6 C05"),
 "C06": dict(
  technique="property-based testing: enumeration over all cells res<=4 x (a,b) plus Hypothesis (cell,a,b) with structured S; behavioural tree relations and differential against the reference id model",
  text="children/parent relations (no repeats, right resolution and count, parent(child)=c, composition, membership, contiguous ascending runs, ValueError on out-of-order requests) for every cell up to res 4 with every parent/child resolution up to 6/7, and for generated cells up to res 29 with jumps of up to 3 levels across the 12/5/4 aperture changes.",
  note="Reference id model as specification; S sampled.", ref="DESIGN.md §6 C06"),
 "C07": dict(
  technique="coverage-directed boundary anchors; property-based testing: Hypothesis descent paths and point/ancestor pairs, enumeration of all short paths and of all prefix+spine paths under res<=2/3 cells; independent great-circle distance oracle",
  text="Generated descent paths (12 levels, incl. extreme first/last/alternating paths) and (point, r, r') triples are judged against the property's constants 1.5 and 2.5 with an independent distance on the authalic sphere; exact nesting of faces and segments is enumerated. Measured worst drift 1.21 / 1.33.",
  note="Sampled paths; constants are the property's.", ref="DESIGN.md §6 C07"),
 "C08": dict(
  technique="long contiguous runs and block refinements (position/size-aware lists); property-based testing: complete enumeration of all antichains of a bounded sub-hierarchy (108k/7.2M) + Hypothesis antichains with overlaps, permutations, duplicates + atheris; interval-union coverage model and literal uncompact comparison",
  text="compact's output must cover exactly the same res-29 leaf intervals as its input. All antichains of a sub-hierarchy spanning every aperture are enumerated; random multisets add deep grafts, ancestor/descendant overlaps, duplicates and arbitrary order.",
  note="Coverage model from the reference id layout; for small cases also checked literally through uncompact.", ref="DESIGN.md §6 C08"),
 "C09": dict(
  technique="long contiguous runs, block refinements with merge sites at head/tail/far apart, sorted-input orderings; property-based testing: same enumeration and generators as C08 restricted to antichains; differential against a set-based reference compaction, metamorphic permutation/duplication, idempotence",
  text="compact(X) must equal, as a set and without duplicates, the bottom-up set-based reference compaction; the result must not depend on order or duplication, and compacting again changes nothing.",
  note="Reference compaction is 20 lines over the reference id model.", ref="DESIGN.md §6 C09"),
 "C10": dict(
  technique="contiguous descendant slices; property-based testing: Hypothesis lists of cells with repeats and mixed resolutions (+ atheris), block-wise differential against the reference descendants, error-class generation",
  text="uncompact output is compared block by block (input order, multiplicity) with the reference descendants; length, resolution, parent mapping and argument immutability are asserted; inputs containing a finer cell at any position must raise.",
  note="Expansion bounded to 4^7 per case, plus a stage of 65,000-400,000-cell outputs.", ref="DESIGN.md §6 C10"),
 "C11": dict(
  technique="coverage-directed boundary anchors and branch-distance (comparison-operand) search for thin slabs; property-based testing: Hypothesis points (as C01) and cells (enumerated res 2..4/6, generated to res 29); independent great-circle distance oracle against the property's bounds",
  text="Point-to-cell-centre distance <= 1.0 cell widths for generated points incl. poles/frame points/res 22-29; corner distances and separations for all cells of the enumerated levels and generated cells elsewhere.",
  note="Distances on the authalic sphere from coordinate differences.", ref="DESIGN.md §6 C11"),
 "C12": dict(
  technique="wide explicit segments values, coverage-directed boundary anchors and branch-distance (comparison-operand) search for thin slabs; property-based testing: enumeration of all cells res<=4/6 x 26 option sets plus Hypothesis cells at the antimeridian/poles to res 29; planar simplicity/orientation oracle in a gnomonic plane, corner-invariance metamorphic relation over segments",
  text="Every option combination (closed_ring x segments incl. defaults, None, 'auto') is called for each cell; vertex count, closure, latitude range, simplicity, orientation, corner invariance, option immutability and the longitude-continuity clauses are asserted.",
  note="Simplicity judged in the gnomonic plane about the cell centre.", ref="DESIGN.md §6 C12"),
 "C13": dict(
  technique="coverage-directed boundary anchors and branch-distance (comparison-operand) search for thin slabs, recycled argument buffers; property-based testing: Hypothesis unit vectors and face-plane points concentrated at seams, edges, vertices and centres down to 1e-12 rad; round-trip oracle through the nearest and the adjacent face",
  text="sphere->plane->sphere through the nearest face and through the face across the nearest edge, and plane->sphere->plane inside pentagon U mirror triangle, must return within 1e-11. Measured 3e-14.",
  note="Inputs handed to the library as (theta, phi) computed with atan2; sampled.", ref="DESIGN.md §6 C13"),
 "C14": dict(
  technique="polygons with a vertex on coverage-discovered branch boundaries and branch-distance (comparison-operand) search for thin slabs; property-based testing: Hypothesis polygons in the face plane (classes across seams/face edge/mirror triangle/centre, sizes 1e-4..0.5); independent spherical area of the unprojected, seam-split, densified boundary with Richardson extrapolation",
  text="Planar area times one global constant must equal the spherical area of the image to 1e-6 for generated triangles, quadrilaterals and pentagons on all 12 faces; a violation needs two agreeing estimates, or raw areas at 64/128/256 points per piece that fail to decay like 1/n^2.",
  note="Polygon edges are split at the published seam rays and edge line before densifying (the map is only piecewise smooth).", ref="DESIGN.md §6 C14"),
 "C15": dict(
  technique="forward/inverse call sequences on long-lived converters vs fresh ones, latitudes where divisors/comparison operands of the conversion code meet (branch-distance search); property-based testing: dense grid sweep (2e5/2e6 latitudes) + log-spaced approaches + Hypothesis floats; closed-form WGS84 oracle audited against 50-digit mpmath",
  text="forward vs closed form (1e-10), oddness, strict monotonicity on consecutive grid points, fixed points, round trip (1e-12), and the degree path through from_lonlat/to_lonlat. Measured 2e-16.",
  note="Closed form evaluated without cancellation near the poles; audited with mpmath on a sub-grid each run.", ref="DESIGN.md §6 C15"),
 "C16": dict(
  technique="schedules aimed at shared mutable slots found by snapshot diffing and at transient (restored-before-return) state found by per-line comparison (lib/sharedstate.py); property-based testing over schedules: harness-owned preemption injector (sys.settrace) driven by Hypothesis-generated (call A, call B, preemption point k), systematic sweep of every k for sampled pairs, cold-cache runs in forked pristine processes, real-thread supplement",
  text="Call A is suspended just before its k-th bytecode line inside a5, call B runs to completion, A resumes; both results must equal the sequential ones bit for bit. Random (A,B,k) over all public functions, warm and cold caches, plus every k for sampled pairs (thorough: exhaustive per pair) and 8 real threads at a 1us switch interval.",
  note="Context bound 2 (one preemption of A); C builtins atomic; a5 keeps no thread-local state.", ref="DESIGN.md §6 C16"),
 "C17": dict(
  technique="very long histories (70k-600k calls) around probe calls, related out-of-order requests, out-of-domain arguments; stateful property-based testing: Hypothesis rule-based state machine over all public functions with data-dependent bundles, differential against a fresh fork of a pristine process for every call, argument and returned-list mutation checks",
  text="Each machine owns a subject process with a growing call history; after every call the result is compared bit for bit with the same call in a fresh pristine process; arguments must be unchanged and scribbling over returned lists must not affect later calls.",
  note="A fork of a process that imported a5 and never called it stands for a fresh interpreter.", ref="DESIGN.md §6 C17"),
 "C18": dict(
  technique="property-based testing: exhaustive enumeration of all indices for h<=6/8 x 6 orientations with a planar tiling certificate, Hypothesis digit-pattern indices for h 9..28; exact integer round-trip oracle and prefix rule",
  text="index->anchor->pentagon centre->IJ->index is the identity; per (level, orientation) the 4^h pentagons are distinct, inside the segment triangle, edge-matched without overlap, fill its area, form the same set for all orientations and mate across the quintant sides; the level-k prefix identifies the enclosing level-k cell.",
  note="Exhaustive for h<=8 only; the outer (v-w) side is certified on the sphere by C03.", ref="DESIGN.md §6 C18"),
 "C19": dict(
  technique="property-based testing: enumeration of every 16-bit lane value (524,288) + boundary values + Hypothesis integers + atheris; round-trip and canonical-form oracle",
  text="hex round trip, lower-case canonical form equal to '%x', upper-case, mixed-case and zero-padded parsing for all lane values, single bits, 2^k+-1, valid ids and random 64-bit values.",
  note="2^64 values are sampled; lanes enumerated with the others all-0/all-1.", ref="DESIGN.md §6 C19"),
 "C20": dict(
  technique="property-based testing by complete enumeration of the finite domain (resolutions -1..30, all pairs and triples), backed by enumeration of cell_to_children for r<=7/9",
  text="get_num_cells vs actual enumeration (r<=7/9) and closed form beyond, sums over coarser levels, get_num_children vs len(cell_to_children) for every pair with expansion <=4^8 (plus expansions of 1-6 million and one of 4^11/4^12), composition law for all triples, cell_area*count = sphere area, strictly decreasing.",
  note="Finite domain enumerated completely; enumeration-backed counts up to r=9.", ref="DESIGN.md §6 C20"),
}

PENDING = {}

def main():
    props = [json.loads(l) for l in open(os.path.join(VERIF, "properties.jsonl"))]
    checks = []
    na = []
    for p in props:
        pid = p["id"]
        if pid in CHECKS:
            c = CHECKS[pid]
            checks.append({
                "property_id": pid,
                "quick_cmd": f"./check {pid} --tier quick",
                "thorough_cmd": f"./check {pid} --tier thorough",
                "evidence_file": f"/verif/evidence/{pid}.json",
                "replay_cmd_template": f"./check {pid} --replay {{path}}",
                "engine": "pbt",
                "level_claimed": {"category": "exploration", "text": c["text"], "design_ref": c["ref"]},
                "level_note": c["note"],
                "technique": c["technique"],
            })
        else:
            na.append({"property_id": pid, "reason": PENDING.get(pid, "check not built yet (build in progress); the design in DESIGN.md §6 applies property-based testing to it")})
    m = {
        "version": 1,
        "setup_cmd": "./setup.sh",
        "hooks": {"guard": "A5_PY_VERIF", "enable": "none needed: a5 is pure Python and is imported from /repo's working tree (PYTHONPATH=/repo); schedules are injected with sys.settrace and histories observed through os.fork, so no source hook exists",
                  "baseline_off_cmd": "cd /repo && /venv/bin/python -m pytest -q -p no:cacheprovider --timeout=900",
                  "source_commits": [], "add_only": True},
        "engines": [{"name": "pbt", "path": "/verif/check", "serves_properties": [c["property_id"] for c in checks],
                     "kind_free_text": "Hypothesis 6.168 generators + complete enumeration of finite sub-domains + atheris (libFuzzer) secondary driver; coverage-directed (sys.monitoring signatures) and branch-distance (instrumented comparisons/divisions, in a forked child) search for aiming; harness-owned preemption scheduler (sys.settrace) and fork-differential for schedules and histories; independent reference models as oracles; 16-way process sharding"}],
        "checks": checks,
        "notes": "All checks read /repo's working tree directly (pure Python). Exit 0 held / 1 VIOLATION / 2 harness error. Known findings in /verif/known_findings.json.",
        "not_applicable": na,
    }
    with open(os.path.join(VERIF, "MANIFEST.json"), "w") as f:
        json.dump(m, f, indent=1)
    print("checks:", len(checks), "not_applicable:", len(na))

if __name__ == "__main__":
    main()
