#!/usr/bin/env python3
"""Regenerates /verif/MANIFEST.json from the table below (kept in one place so it stays valid)."""
import json, os
VERIF = os.path.dirname(os.path.dirname(os.path.abspath(__file__)))

CHECKS = {
 "C05": dict(
  technique="property-based testing: complete enumeration (res<=7/9) + Hypothesis bit-pattern generators + atheris fuzzing, differential against an independent id-layout model and encode/decode round-trips",
  text="Every (face,segment,S) for res<=7 (quick) / <=9 (thorough) is encoded, decoded and compared with an independent layout model; res 2..29 are sampled with S patterns aimed at the shift/mask arithmetic; raw 64-bit values and out-of-range S are generated too. Exhaustive only on the enumerated sub-domain; sampled beyond. Resolution 30 is a recorded known finding (encode raises).",
  note="Trusts the documented id layout (pinned by the repository's own mask table and hex fixtures) as the specification; S is sampled, not symbolic.",
  ref="DESIGN.md §6 C05"),
}

PENDING = {}

def main():
    props = [json.loads(l) for l in open(os.path.join(VERIF, "properties.jsonl"))]
    checks = []
    na = []
    for p in props:
        pid = p["id"]
        if pid in CHECKS:
            c = CHECKS[pid]
            checks.append({
                "property_id": pid,
                "quick_cmd": f"./check {pid} --tier quick",
                "thorough_cmd": f"./check {pid} --tier thorough",
                "evidence_file": f"/verif/evidence/{pid}.json",
                "replay_cmd_template": f"./check {pid} --replay {{path}}",
                "engine": "pbt",
                "level_claimed": {"category": "exploration", "text": c["text"], "design_ref": c["ref"]},
                "level_note": c["note"],
                "technique": c["technique"],
            })
        else:
            na.append({"property_id": pid, "reason": PENDING.get(pid, "check not built yet (build in progress); the design in DESIGN.md §6 applies property-based testing to it")})
    m = {
        "version": 1,
        "setup_cmd": "./setup.sh",
        "hooks": {"guard": "A5_PY_VERIF", "enable": "none needed: a5 is pure Python and is imported from /repo's working tree (PYTHONPATH=/repo); schedules are injected with sys.settrace and histories observed through os.fork, so no source hook exists",
                  "baseline_off_cmd": "cd /repo && /venv/bin/python -m pytest -q -p no:cacheprovider --timeout=900",
                  "source_commits": [], "add_only": True},
        "engines": [{"name": "pbt", "path": "/verif/check", "serves_properties": [c["property_id"] for c in checks],
                     "kind_free_text": "Hypothesis 6.168 generators + complete enumeration of finite sub-domains + atheris (libFuzzer) secondary driver; independent reference models as oracles; 16-way process sharding"}],
        "checks": checks,
        "notes": "All checks read /repo's working tree directly (pure Python). Exit 0 held / 1 VIOLATION / 2 harness error. Known findings in /verif/known_findings.json.",
        "not_applicable": na,
    }
    with open(os.path.join(VERIF, "MANIFEST.json"), "w") as f:
        json.dump(m, f, indent=1)
    print("checks:", len(checks), "not_applicable:", len(na))

if __name__ == "__main__":
    main()
