#!/usr/bin/env python3
"""Prints the markdown table of seeded changes (from seeded/*/meta.json) for DESIGN.md."""
import json, os, glob
V = os.path.dirname(os.path.dirname(os.path.abspath(__file__)))
rows = []
for m in sorted(glob.glob(os.path.join(V, "seeded", "*", "meta.json"))):
    d = json.load(open(m))
    caught = [c for c, v in d["checks"].items() if v["verdict"] == "caught"]
    missed = [c for c, v in d["checks"].items() if v["verdict"] == "missed"]
    rows.append((d["id"], d["breaks_property"], d["origin"], d["needs_to_manifest"], ", ".join(caught) or "-", ", ".join(missed) or "-", "yes" if d.get("confirmed") else "NO"))
print("| Change | Breaks | Origin | Needs, to manifest | Caught by (quick tier) | Ran but silent | Confirmed |")
print("|---|---|---|---|---|---|---|")
for r in rows:
    print("| " + " | ".join(x.replace("|", "/") for x in r) + " |")
