"""C17 — every API call is a pure function of its arguments (DESIGN.md §6 C17)."""
import copy
import os

import hypothesis
from hypothesis import HealthCheck, Phase, settings, strategies as st
from hypothesis.stateful import Bundle, RuleBasedStateMachine, consumes, invariant, multiple, rule, run_state_machine_as_test

from lib import apigen, forkoracle, gens, refids
from lib.runner import Stage, Violation, HarnessError

RULE = ("histories: Hypothesis rule-based state machines; each rule is one public API call with generated arguments (bundles "
        "feed cells and boundary points returned by earlier calls into later ones; a repeat rule re-issues an earlier call; "
        "returned lists are mutated in the subject after being recorded; results of compact/uncompact/cell_to_children are edited in place and fed back as the same object; earlier calls are re-issued with equal-valued arguments of another type; very long histories around probe calls). The subject is a long-lived process forked cold from "
        "a pristine zygote; the oracle evaluates the same call in a fresh fork of the zygote (import-time state only). "
        "Compared bit-for-bit (float.hex, container types, exception type+message); arguments deep-compared before/after. "
        "One case = one judged call with its history prefix. Non-trivial = the prefix holds >=2 geometry calls on >=2 "
        "different faces, or the call is a repeat after a mutation; distinct by hash of the history prefix.")
ASSUMPTIONS = ["a process forked from the zygote (a5 imported, never called) is equivalent to a fresh interpreter for a5",
               "cache states are those reachable through the public API from cold"]
REQUIRED_CLASSES = {"nontrivial_history": (None, 0.3), "repeat_after_mutation": (None, 0.02)}


# ---------------------------------------------------------------------------------------------
# subject process
# ---------------------------------------------------------------------------------------------

def _subject_eval(call, mutate):
    import a5
    args = [forkoracle._thaw(a) for a in call[1:]]
    snap = copy.deepcopy(args)
    try:
        res = getattr(a5, call[0])(*args)
        out = ("ok", forkoracle.encode(res))
    except Exception as e:  # noqa: BLE001
        res = None
        out = ("exc", f"{type(e).__name__}: {e}")
    unchanged = forkoracle.encode(args) == forkoracle.encode(snap)
    if mutate and isinstance(res, list):
        # scribble over the returned list: later results must not depend on it
        for i in range(len(res)):
            res[i] = (123.0, -45.0) if isinstance(res[i], tuple) else 7
        res.append(0)
        del res[: len(res) // 2]
    return out, unchanged


def _subject_feedback(fname, source_call, edit, cell, extra):
    """Call source_call, edit the very object it returned in place, hand that same object to a5.<fname>.
    -> ((status, encoded result), argument values as passed)."""
    import a5
    obj = getattr(a5, source_call[0])(*[forkoracle._thaw(a) for a in source_call[1:]])
    if not isinstance(obj, list):
        return (("skip", None), None)
    if edit == "reverse":
        obj.reverse()
    elif edit == "append":
        obj.append(cell)
    elif edit == "insert0":
        obj.insert(0, cell)
    elif edit == "dup":
        obj.extend(obj[:2])
    elif edit == "swap" and len(obj) >= 2:
        obj[0], obj[-1] = obj[-1], obj[0]
    elif edit == "slice" and len(obj) >= 3:
        obj[1:2] = [cell, cell]
    values = list(obj)
    try:
        out = ("ok", forkoracle.encode(getattr(a5, fname)(obj, *extra)))
    except Exception as e:  # noqa: BLE001
        out = ("exc", f"{type(e).__name__}: {e}")
    return (out, values)


def _subject_bulk(name, first, stride, count):
    """count calls of a5.<name> on the cells first, first+stride, ... (results discarded)."""
    import a5
    fn = getattr(a5, name)
    n = 0
    for i in range(count):
        try:
            fn(first + i * stride)
            n += 1
        except Exception:  # noqa: BLE001 - an invalid id in the block is not this stage's concern
            pass
    return n


class Subject:
    """A long-lived process with its own call history, forked from the (pristine) caller."""

    def __init__(self):
        req_r, req_w = os.pipe()
        res_r, res_w = os.pipe()
        pid = os.fork()
        if pid == 0:
            os.close(req_w)
            os.close(res_r)
            try:
                while True:
                    try:
                        req = forkoracle._recv(req_r)
                    except EOFError:
                        break
                    if req is None:
                        break
                    try:
                        if req[0] == "__bulk__":
                            out = ("ok", _subject_bulk(*req[1:]))
                        elif req[0] == "__feedback__":
                            out = ("ok", _subject_feedback(*req[1:]))
                        else:
                            out = ("ok", _subject_eval(*req))
                    except BaseException as e:  # noqa: BLE001
                        out = ("harness_exc", f"{type(e).__name__}: {e}")
                    forkoracle._send(res_w, out)
            finally:
                os._exit(0)
        os.close(req_r)
        os.close(res_w)
        self.pid, self.req_w, self.res_r = pid, req_w, res_r

    def call(self, call, mutate):
        forkoracle._send(self.req_w, (call, mutate))
        status, val = forkoracle._recv(self.res_r)
        if status != "ok":
            raise HarnessError(f"subject failure: {val}")
        return val

    def close(self):
        try:
            forkoracle._send(self.req_w, None)
        except OSError:
            pass
        for fd in (self.req_w, self.res_r):
            try:
                os.close(fd)
            except OSError:
                pass
        try:
            os.waitpid(self.pid, 0)
        except ChildProcessError:
            pass


def oracle_eval(call):
    """Runs in a fresh fork of the zygote."""
    out, unchanged = _subject_eval(call, False)
    return out


# ---------------------------------------------------------------------------------------------
# shared state of a shard
# ---------------------------------------------------------------------------------------------
_S = {"zyg": None, "memo": {}, "col": None}


def _oracle(call):
    key = repr(call)
    m = _S["memo"]
    if key not in m:
        if len(m) > 20000:
            m.clear()
        m[key] = _S["zyg"].call("checks.c17", "oracle_eval", call)
    return m[key]


def _face_of(call, result):
    name = call[0]
    try:
        if name in ("cell_to_boundary", "cell_to_lonlat"):
            return refids.dec(call[1])[1]
        if name == "lonlat_to_cell" and result[0] == "ok":
            return refids.dec(result[1])[1]
    except Exception:  # noqa: BLE001
        return None
    return None


class History:
    """Judges calls one by one against the oracle; used by the state machine and by replay."""

    def __init__(self, col):
        self.col = col
        self.subject = Subject()
        self.calls = []
        self.mutated = []          # indices of calls whose returned list was mutated in the subject
        self.faces = []

    def step(self, call, mutate=True, is_repeat=False):
        got, unchanged = self.subject.call(call, mutate)
        want = _oracle(call)
        case = {"history": self.calls + [call]}
        if got != want:
            raise Violation("differs_from_fresh_process", case, observed=_short(got), expected=_short(want),
                            note=f"call #{len(self.calls)} {call[0]} after {len(self.calls)} earlier calls")
        if not unchanged:
            raise Violation("argument_modified", case, observed="argument changed by the call", expected="unchanged",
                            note=f"call #{len(self.calls)} {call[0]}")
        nfaces = len({f for f in self.faces if f is not None})
        ngeo = sum(1 for c in self.calls if c[0] in apigen.GEOMETRY) + sum(c[4] for c in self.calls if c[0] == "__bulk__")
        rep_after_mut = is_repeat and any(self.calls[i] == call for i in self.mutated)
        nt = (ngeo >= 2 and nfaces >= 2) or rep_after_mut or ngeo >= 1000
        classes = [f"call:{call[0]}", f"depth{min(len(self.calls) // 10 * 10, 40):02d}+"]
        if nt:
            classes.append("nontrivial_history")
        if rep_after_mut:
            classes.append("repeat_after_mutation")
        if got[0] == "exc":
            classes.append("raises_consistently")
        self.col.case({"history_len": len(self.calls) + 1, "last": call, "prefix_hash": hash(repr(self.calls)) & 0xFFFFFFFF},
                      nontrivial=nt, classes=classes)
        if mutate and got[0] == "ok" and isinstance(got[1], list) and got[1] and got[1][0] == "l":
            self.mutated.append(len(self.calls))
        self.faces.append(_face_of(call, got))
        self.calls.append(call)
        return got

    def feedback(self, fname, source_call, edit, cell, extra):
        """The object returned by source_call is edited in place and passed to fname in the subject; a fresh process
        gets the same argument *values* in a plain list. Results must agree."""
        forkoracle._send(self.subject.req_w, ("__feedback__", fname, source_call, edit, cell, extra))
        status, val = forkoracle._recv(self.subject.res_r)
        if status != "ok":
            raise HarnessError(f"subject failure: {val}")
        got, values = val
        marker = ["__feedback__", fname, source_call, edit, cell, extra]
        if got[0] == "skip":
            return
        equiv = [fname, ["l"] + list(values)] + list(extra)
        want = _oracle(equiv)
        case = {"history": self.calls + [marker]}
        if got != want:
            raise Violation("differs_from_fresh_process", case, observed=_short(got), expected=_short(want),
                            note=f"{fname} was handed the (edited) list object returned by {source_call[0]}; a fresh process got the same values in a plain list")
        self.col.case({"history_len": len(self.calls) + 1, "last": marker, "prefix_hash": hash(repr(self.calls)) & 0xFFFFFFFF},
                      nontrivial=True, classes=["call:" + fname, "returned_object_fed_back", "nontrivial_history"])
        self.calls.append(marker)
        self.faces.append(None)

    def subject_bulk(self, name, first, stride, count):
        forkoracle._send(self.subject.req_w, ("__bulk__", name, first, stride, count))
        status, val = forkoracle._recv(self.subject.res_r)
        if status != "ok":
            raise HarnessError(f"subject failure: {val}")
        self.calls.append(["__bulk__", name, first, stride, count])
        self.faces.append(None)
        return val

    def close(self):
        self.subject.close()


def _short(r):
    s = repr(r)
    return s if len(s) < 300 else s[:300] + "..."


# ---------------------------------------------------------------------------------------------
# the state machine
# ---------------------------------------------------------------------------------------------

class A5History(RuleBasedStateMachine):
    cells = Bundle("cells")
    points = Bundle("points")

    def __init__(self):
        super().__init__()
        self.h = History(_S["col"])

    def teardown(self):
        self.h.close()

    def _cells_from(self, got):
        if got[0] != "ok":
            return multiple()
        v = got[1]
        if isinstance(v, int) and refids.is_valid(v):
            return multiple(v)
        if isinstance(v, list) and v and v[0] == "l":
            xs = [x for x in v[1:] if isinstance(x, int) and refids.is_valid(x)]
            return multiple(*xs[:3])
        return multiple()

    @rule(target=cells, call=apigen.lonlat_to_cell_calls())
    def lonlat_to_cell(self, call):
        return self._cells_from(self.h.step(call))

    @rule(target=cells, c=gens.cell_ids(0, 29))
    def seed_cell(self, c):
        return c

    @rule(target=points, c=cells, opts=apigen.boundary_opts())
    def boundary_of(self, c, opts):
        got = self.h.step(["cell_to_boundary", c] + ([opts] if opts is not None else []))
        if got[0] == "ok" and len(got[1]) > 1:
            pts = [p for p in got[1][1:4]]
            return multiple(*[["t", float.fromhex(p[1][2:]), float.fromhex(p[2][2:])] for p in pts])
        return multiple()

    @rule(target=points, c=cells)
    def centre_of(self, c):
        got = self.h.step(["cell_to_lonlat", c])
        if got[0] == "ok":
            p = got[1]
            return ["t", float.fromhex(p[1][2:]), float.fromhex(p[2][2:])]
        return multiple()

    @rule(target=cells, p=points, r=gens.resolutions(0, 29))
    def cell_of_point(self, p, r):
        lon, lat = p[1], p[2]
        if not (-90.0 <= lat <= 90.0):
            return multiple()
        return self._cells_from(self.h.step(["lonlat_to_cell", p, r]))

    @rule(target=cells, c=cells, u=st.floats(0, 1, allow_nan=False))
    def parent_of(self, c, u):
        res = refids.res_of(c)
        a = min(res, -1 + int(u * (res + 1.999)))
        return self._cells_from(self.h.step(["cell_to_parent", c, a]))

    @rule(target=cells, c=cells, d=st.integers(0, 3))
    def children_of(self, c, d):
        res = refids.res_of(c)
        if res < 1:
            d = min(d, 2)
        return self._cells_from(self.h.step(["cell_to_children", c, min(29, res + d)]))

    @rule(c=cells, ua=st.floats(0, 1, allow_nan=False), k=st.integers(1, 3), kind=st.sampled_from(["parent", "children"]))
    def related_out_of_order(self, c, ua, k, kind):
        """A valid request immediately followed by an out-of-order request on a related cell (both must behave as in a
        fresh process: the second one raises there)."""
        res = refids.res_of(c)
        if kind == "parent" and res >= 2:
            a = 1 + int(ua * (res - 1))                     # 1..res-1... parent resolution
            a = max(1, min(res, a))
            p = refids.parent(c, a)
            anc = refids.parent(p, max(-1, a - k))
            self.h.step(["cell_to_parent", c, a])
            self.h.step(["cell_to_parent", anc, a])
        elif kind == "children" and 1 <= res <= 28:
            b = min(29, res + k)
            self.h.step(["cell_to_children", c, b])
            kid = refids.children(c, b)[int(ua * (refids.nchildren(res, b) - 1))]
            self.h.step(["cell_to_children", kid, res])

    @rule(call=apigen.hierarchy_calls())
    def hierarchy(self, call):
        self.h.step(call)

    @rule(call=apigen.compaction_calls())
    def compaction(self, call):
        self.h.step(call)

    @rule(call=apigen.geometry_calls())
    def geometry(self, call):
        self.h.step(call)

    @rule(cs=st.lists(cells, min_size=1, max_size=8))
    def compact_bundle(self, cs):
        self.h.step(["compact", ["l"] + list(cs)])

    @rule(cs=st.lists(cells, min_size=1, max_size=8), extra_cell=cells, edit=st.sampled_from(["reverse", "append", "insert0", "dup", "swap", "slice", "none"]),
          kind=st.integers(0, 2), t=st.integers(0, 2))
    def feed_result_back(self, cs, extra_cell, edit, kind, t):
        """compact / uncompact / cell_to_children results, edited in place by the caller, go straight back into
        compact / uncompact as the same list object."""
        if kind == 0:
            src = ["compact", ["l"] + list(cs)]
        elif kind == 1:
            c = cs[0]
            src = ["cell_to_children", c, min(29, refids.res_of(c) + 1 + t % 2)]
        else:
            r = max(refids.res_of(c) for c in cs)
            if min(refids.res_of(c) for c in cs) < r - 5:
                return
            src = ["uncompact", ["l"] + list(cs), min(29, r + t % 2)]
        if t == 2:
            r = max([refids.res_of(c) for c in cs] + [refids.res_of(extra_cell)])
            target = min(29, r + 1)
            # keep the expansion enumerable: every cell involved must be within 5 levels of the target
            if min([refids.res_of(c) for c in cs] + [refids.res_of(extra_cell)]) < target - 5:
                return
            self.h.feedback("uncompact", src, edit, extra_cell, [target])
        else:
            self.h.feedback("compact", src, edit, extra_cell, [])

    @rule(i=st.integers(0, 10 ** 6), which=st.integers(0, 3))
    def repeat_retyped(self, i, which):
        """Re-issue an earlier call with one argument replaced by an equal-valued value of another type (int -> float
        where exact, 0/1 -> bool, numeric option values -> float). Whatever a fresh process does with it (usually a
        TypeError) is what the long-lived process must do too."""
        if not self.h.calls:
            return
        call = [x for x in self.h.calls[i % len(self.h.calls)]]
        if call[0] == "__bulk__" or len(call) < 2:
            return

        def retype(v):
            if isinstance(v, bool):
                return int(v)
            if isinstance(v, int):
                if v in (0, 1) and which == 0:
                    return bool(v)
                return float(v) if float(v) == v else v
            if isinstance(v, float) and v == int(v) and abs(v) < 2 ** 53:
                return int(v)
            return v
        k = 1 + which % (len(call) - 1)
        a = call[k]
        if isinstance(a, dict):
            a = {kk: retype(vv) for kk, vv in a.items()}
        elif isinstance(a, list) and a and a[0] in ("t", "l"):
            a = [a[0]] + [retype(x) for x in a[1:]]
        else:
            a = retype(a)
        if a == call[k] and type(a) is type(call[k]) and not isinstance(a, (dict, list)):
            return
        call[k] = a
        self.h.step(call, is_repeat=True)

    @rule(kind=st.integers(0, 11), k=st.integers(0, 63), c=cells, bit=st.booleans(), r=st.sampled_from([-3, -2, 30, 31, 32, 40]),
          junk=st.sampled_from(["", " ", "xyz", "0x1f", "-1", "1" * 17, "g", "1e3"]))
    def out_of_domain(self, kind, k, c, bit, r, junk):
        """Arguments outside the documented domain (ids without a resolution marker, ids beyond 64 bits or negative,
        resolutions outside -1..30, coordinates far outside the ranges, malformed hex). Whether such a call is rejected
        or answered, it must do what a fresh process does, and it must leave nothing behind for the calls that follow
        (checked by the ordinary rules that come after it in the history)."""
        no_marker = (k << 58) | (1 if bit else 0)
        wild = [no_marker, c | (1 << 64), -c, c | 1, (1 << 64) - 1, c ^ (1 << 63)][kind % 6]
        call = [["cell_to_lonlat", wild], ["cell_to_boundary", wild], ["get_resolution", wild], ["cell_to_parent", wild, 0],
                ["cell_to_children", wild, 1 + k % 3], ["u64_to_hex", wild], ["compact", ["l", c, wild]],
                ["lonlat_to_cell", ["t", 12.5, 40.0], r], ["lonlat_to_cell", ["t", 1e6 * (k - 31), 91.0 + k], 5],
                ["cell_to_parent", c, r], ["get_num_cells", r], ["hex_to_u64", junk]][kind]
        self.h.step(call)

    @rule(i=st.integers(0, 10 ** 6))
    def repeat(self, i):
        if self.h.calls:
            self.h.step(self.h.calls[i % len(self.h.calls)], is_repeat=True)


def stage_machine(ctx):
    _S["zyg"] = forkoracle.Zygote()      # forked before this shard process ever calls into a5 (it never does)
    _S["memo"] = {}
    _S["col"] = ctx.col
    quick = ctx.tier == "quick"
    phases = [Phase.generate] + ([] if quick else [Phase.shrink])
    stt = settings(max_examples=60 if quick else 1500, stateful_step_count=25 if quick else 50, database=None, deadline=None,
                   report_multiple_bugs=False, suppress_health_check=list(HealthCheck), phases=phases, print_blob=False)
    try:
        run_state_machine_as_test(hypothesis.seed(ctx.shard_seed)(A5History), settings=stt)
    except Violation:
        ctx.col.frozen = False
        raise
    finally:
        _S["zyg"].close()


def stage_long_history(ctx):
    """Very long histories: probe calls, then 70k..300k calls on distinct cells in the same process, then the probe
    calls again; every probe result (before and after) must equal the fresh-process value. Reaches capacity-bounded
    caches (eviction/wrap-around), which no history of a few dozen calls can."""
    import hypothesis
    from hypothesis import HealthCheck, Phase, given, settings
    _S["zyg"] = forkoracle.Zygote()
    _S["memo"] = {}
    _S["col"] = ctx.col
    probes = []

    @hypothesis.seed(ctx.shard_seed)
    @settings(max_examples=50, database=None, deadline=None, phases=[Phase.generate], suppress_health_check=list(HealthCheck))
    @given(apigen.geometry_calls(lo=2))
    def collect(c):
        probes.append(c)
    collect()
    probes = probes[10:]
    sizes = [70000, 140000] if ctx.tier == "quick" else [70000, 140000, 300000, 600000]
    n_bulk = sizes[ctx.shard % len(sizes)]
    # distinct cells by enumeration: a contiguous block of res-9..12 descendants of a face (no RNG needed)
    res = 9 + ctx.shard % 4
    first = refids.enc(res, ctx.shard % 12, ctx.shard % 5, 0)
    stride = 1 << (60 - 2 * res)
    h = History(ctx.col)
    try:
        for c in probes:
            h.step(c, mutate=False)
        done = 0
        kinds = ["cell_to_lonlat", "cell_to_boundary", "cell_to_lonlat"]
        while done < n_bulk:
            m = min(20000, n_bulk - done)
            h.subject_bulk(kinds[(done // 20000) % 3], first + done * stride, stride, m)
            done += m
        for c in probes:
            h.step(c, mutate=False, is_repeat=True)
        ctx.col.count("bulk_calls_between_probe_rounds", n_bulk)
    finally:
        h.close()
        _S["zyg"].close()


def plan(tier):
    return [Stage("machine", 16, stage_machine, cost=10), Stage("long_history", 2 if tier == "quick" else 8, stage_long_history, cost=9)]


def replay(rec, col):
    hist = rec["case"]["history"]
    own = _S["zyg"] is None
    if own:
        _S["zyg"] = forkoracle.Zygote()
        _S["memo"] = {}
    h = History(col)
    try:
        for i, call in enumerate(hist):
            if call and call[0] == "__bulk__":
                h.subject_bulk(*call[1:])
            elif call and call[0] == "__feedback__":
                h.feedback(*call[1:])
            else:
                h.step(call, mutate=True, is_repeat=call in hist[:i])
    finally:
        h.close()
        if own:
            _S["zyg"].close()
            _S["zyg"] = None
