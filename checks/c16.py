"""C16 — results do not depend on what other threads are doing (DESIGN.md §6 C16)."""
import math
import sys
import threading

from hypothesis import strategies as st

from lib import apigen, forkoracle, sched
from lib.runner import Stage, Violation, hyp_drive, HarnessError

RULE = ("schedules (A, B, k): API call A preempted just before its k-th bytecode line inside the a5 package, call B run to "
        "completion there, A resumed (context bound 2, injected with sys.settrace; opcode granularity on a subset). A, B from "
        "call templates over all public functions with generated arguments; k = floor(u*N_A) uniform. A third of the trials "
        "run in a process forked from a pristine zygote (cold caches, lazy cache fills interleaved). Systematic stage "
        "(thorough): every k in [0,N_A) for generated (A,B) pairs. Supplement (thorough): 8 real threads, 1us switch interval. "
        "Oracle: bit-identical to the sequential results (either serial order), no exception. Non-trivial = preemption fired "
        "strictly inside A (0<k<N_A) and both A and B are geometry or list-building calls; distinct by (A,B,k).")
ASSUMPTIONS = ["a5 keeps no thread-local state, so 'B runs to completion inside A' is a faithful 2-thread schedule",
               "C-level builtins are atomic (true under the GIL); context bound 2 systematically, bound 3 sampled"]
REQUIRED_CLASSES = {"fired_inside": (None, 0.5), "cold": ("hyp", 0.15), "both_geometry": ("hyp", 0.3)}

_zyg = {}


def zygote():
    if "z" not in _zyg:
        _zyg["z"] = forkoracle.Zygote()
    return _zyg["z"]


def _mk(call):
    return lambda: forkoracle.encode(forkoracle.api_call(call))


def _files(case):
    """Restriction of the preemption points for shared-slot sweeps: the code objects that refer to the slot by name."""
    name = case.get("accessor")
    if not name:
        return None
    from lib import sharedstate
    codes = sharedstate.accessor_codes(name) or (sharedstate.owner_codes(case["slot"]) if case.get("slot") else None)
    return codes or None


def trial_in_process(payload):
    """Runs in whichever process calls it. payload = (A, B, k, opcodes, mode)
    mode 'serial_ab': traced count of A (N_A), then B          -> (N_A, resA, resB)
    mode 'serial_ba': B then A                                   -> (None, resA, resB)
    mode 'trial'    : A preempted at k by B                      -> (count, resA, resB, where, fired)"""
    A, B, k, opcodes, mode = payload[:5]
    only = payload[5] if len(payload) > 5 else None
    if mode == "serial_ab":
        n, ra, _ = sched.run_preempted(_mk(A), None, -1, opcodes, only_codes=only)
        rb = sched._safe(_mk(B))
        return (n, ra, rb)
    if mode == "serial_ba":
        rb = sched._safe(_mk(B))
        ra = sched._safe(_mk(A))
        return (None, ra, rb)
    n, ra, (rb, where, fired) = sched.run_preempted(_mk(A), _mk(B), k, opcodes, only_codes=only)
    return (n, ra, rb, where, fired)


def judge_nested(case, col):
    """Three parties: A is preempted at k by B, and B itself is preempted at k2 by C (context bound 3)."""
    A, B, C = case["A"], case["B"], case["C"]
    ra = [sched._safe(_mk(A)) for _ in range(2)]
    rb = [sched._safe(_mk(B)) for _ in range(2)]
    rc = [sched._safe(_mk(C)) for _ in range(2)]
    nA, _, _ = sched.run_preempted(_mk(A), None, -1)
    nB, _, _ = sched.run_preempted(_mk(B), None, -1)
    if nA <= 0 or nB <= 0:
        col.case(case, nontrivial=False, classes=("no_events",))
        return
    k = min(nA - 1, int(case["u"] * nA))
    k2 = min(nB - 1, int(case["u2"] * nB))
    inner = {}

    def b_preempted_by_c():
        # tracing is suspended inside a trace callback, so B (which is traced itself) runs on a second real thread
        # that is joined before A resumes: the same schedule, with B's own tracer active
        def body():
            n, tb, (tc, where, fired) = sched.run_preempted(_mk(B), _mk(C), k2)
            inner.update(tb=tb, tc=tc, where=where, fired=fired)
        t = threading.Thread(target=body)
        t.start()
        t.join()
        tb = inner.get("tb", ("exc", "inner thread died"))
        if tb[0] == "exc":
            raise RuntimeError(tb[1])
        return tb[1]
    n, ta, (tb_outer, where, fired) = sched.run_preempted(_mk(A), b_preempted_by_c, k)
    rec = {"A": A, "B": B, "C": C, "k": k, "k2": k2, "nested": True}
    if not fired or not inner.get("fired"):
        col.count("not_fired")
        col.case(rec, nontrivial=False, classes=("nested", "not_fired"))
        return
    if ta not in ra:
        raise Violation("A_differs_under_nested_preemption", rec, observed=_short(ta), expected=_short(ra[0]), note=f"A preempted at {where}, B at {inner['where']}")
    if inner["tb"] not in rb:
        raise Violation("B_differs_under_nested_preemption", rec, observed=_short(inner["tb"]), expected=_short(rb[0]), note=f"B preempted at {inner['where']} inside A at {where}")
    if inner["tc"] not in rc:
        raise Violation("C_differs_inside_B_inside_A", rec, observed=_short(inner["tc"]), expected=_short(rc[0]), note=f"ran at {inner['where']}")
    col.case(rec, nontrivial=0 < k and 0 < k2, classes=("nested", "fired_inside", "hyp", "warm"))


def judge_cold_init(case, col):
    A, B, k = case["A"], case["B"], case["k"]
    z = zygote()
    ks, ncold, a1, b1 = z.call("checks.c16", "cold_probe", (A, B, "profile", -1))
    a2, b2 = z.call("checks.c16", "cold_probe", (A, B, "serial_ba", -1))
    fired, where, ta, tb, ta2, tb2 = z.call("checks.c16", "cold_probe", (A, B, "trial", k))
    if fired:
        for kind, got, want in (("A_differs_under_cold_preemption", ta, (a1, a2)), ("B_differs_inside_cold_A", tb, (b1[0], b2[0])),
                                ("A_differs_after_cold_interleaving", ta2, (a1, a2)), ("B_differs_after_cold_interleaving", tb2[0], (b1[0], b2[0])),
                                ("later_calls_differ_after_cold_interleaving", tb2[1], (b1[1], b2[1]))):
            if got not in want:
                raise Violation(kind, case, observed=_short(got), expected=_short(want[0]), note=f"A preempted at cold-only line {where}")
    col.case(case, nontrivial=bool(fired), classes=("cold_init",))


def judge_cold_threads(case, col):
    z = zygote()
    ref = dict(z.call("checks.c16", "cold_threads", (0, 0)))
    ref.update(z.call("checks.c16", "cold_threads", (0, 1)))
    n, variant = case["cold_threads"]
    for _ in range(6):
        got = z.call("checks.c16", "cold_threads", (n, variant))
        for call, results in got.items():
            want = ref.get(call)
            if want is not None and any(r not in want for r in results):
                raise Violation("differs_under_cold_start_real_threads", case, observed="a threaded cold-start walk returned a value the single-threaded walk never returns", expected="same values")
    col.case(case, nontrivial=True, classes=("cold_start_real_threads",))


def judge(case, col):
    if "cold_threads" in case:
        return judge_cold_threads(case, col)
    if case.get("cold_init"):
        return judge_cold_init(case, col)
    if case.get("nested") or "C" in case:
        if "u" not in case:
            case = dict(case, u=None)
            # replay with explicit k/k2: reuse the fractions machinery
            return _replay_nested(case, col)
        return judge_nested(case, col)
    A, B = case["A"], case["B"]
    cold = bool(case.get("cold"))
    # opcode-granularity tracing only becomes active for a code object after it has been traced once
    # (CPython 3.12 instruments lazily), so it is used in the warm class only, after the counting runs
    opcodes = bool(case.get("opcodes")) and not cold
    if cold:
        z = zygote()
        run = lambda payload: z.call("checks.c16", "trial_in_process", payload)  # noqa: E731
    else:
        run = trial_in_process
    only = _files(case)
    nA, a1, b1 = run((A, B, -1, opcodes, "serial_ab", only))
    _, a2, b2 = run((A, B, -1, opcodes, "serial_ba", only))
    if not cold:
        # the first run may have filled lazy caches (more lines); count again in the now-warm state
        nA, a1, b1 = run((A, B, -1, opcodes, "serial_ab", only))
    if nA <= 0:
        # A executes no a5 python line (cannot happen for public functions)
        col.case(case, nontrivial=False, classes=("no_events",))
        return
    if "k" in case:
        k = case["k"]
    else:
        k = min(nA - 1, int(case["u"] * nA))
    if case.get("slot"):
        run((A, B, -1, opcodes, "serial_ab", only))          # leave A's values in the shared slots before the trial
        trial_in_process((A, A, -1, False, "serial_ba")) if not cold else None
    n, ta, tb, where, fired = run((A, B, k, opcodes, "trial", only))
    rec = dict(case)
    rec["k"] = k
    rec.pop("u", None)
    if not fired:
        col.count("not_fired")
        col.case(rec, nontrivial=False, classes=("not_fired",))
        return
    if ta not in (a1, a2):
        raise Violation("A_differs_under_preemption", rec, observed=_short(ta), expected=_short(a1), note=f"preempted at {where}, N_A={nA}")
    if tb not in (b1, b2):
        raise Violation("B_differs_inside_A", rec, observed=_short(tb), expected=_short(b1), note=f"ran at {where}, N_A={nA}")
    geo = (A[0] in apigen.GEOMETRY or A[0] in apigen.LISTY) and (B[0] in apigen.GEOMETRY or B[0] in apigen.LISTY)
    inside = 0 < k < nA
    classes = ["hyp" if not case.get("sys") else ("systematic" if not case.get("slot") else "shared_slot_sweep"), "cold" if cold else "warm", f"A:{A[0]}", f"B:{B[0]}"]
    if inside:
        classes.append("fired_inside")
    if geo:
        classes.append("both_geometry")
    if opcodes:
        classes.append("opcode_granularity")
    if where and (where.startswith("math") or where.startswith("geometry")):
        classes.append("preempted_in_math_or_geometry")
    col.measure("N_A_max", nA, {"A": A[0]})
    col.case(rec, nontrivial=inside and geo, classes=classes)


def _short(r):
    s = repr(r)
    return s if len(s) < 300 else s[:300] + "..."


def _replay_nested(case, col):
    A, B = case["A"], case["B"]
    nA, _, _ = sched.run_preempted(_mk(A), None, -1)
    nA, _, _ = sched.run_preempted(_mk(A), None, -1)
    nB, _, _ = sched.run_preempted(_mk(B), None, -1)
    nB, _, _ = sched.run_preempted(_mk(B), None, -1)
    c2 = dict(case, u=(case["k"] + 0.5) / max(nA, 1), u2=(case["k2"] + 0.5) / max(nB, 1))
    return judge_nested(c2, col)


def cases():
    call = st.one_of(apigen.geometry_calls(), apigen.geometry_calls(), apigen.geometry_calls(), apigen.any_call())
    nested = st.builds(lambda A, B, C, u, u2: {"A": A, "B": B, "C": C, "u": u, "u2": u2, "nested": True},
                       apigen.geometry_calls(), apigen.geometry_calls(), apigen.geometry_calls(),
                       st.floats(0, 0.999999, allow_nan=False), st.floats(0, 0.999999, allow_nan=False))
    return st.one_of(_pairs(call), _pairs(call), _pairs(call), nested)


def _pairs(call):
    return st.builds(lambda A, B, u, cold, op: {"A": A, "B": B, "u": u, "cold": cold == 0, "opcodes": op == 0},
                     call, call, st.floats(0, 0.999999, allow_nan=False), st.integers(0, 2), st.integers(0, 5))


def stage_hyp(ctx):
    zygote()        # fork the pristine zygote before this shard ever calls into a5
    try:
        hyp_drive(ctx, cases(), judge, 120 if ctx.tier == "quick" else 1500)
    finally:
        zygote().close()
        _zyg.clear()


def stage_systematic(ctx):
    """Every preemption point of A for generated (A, B) pairs."""
    import hypothesis
    from hypothesis import HealthCheck, Phase, given, settings
    pairs = []

    @hypothesis.seed(ctx.shard_seed)
    @settings(max_examples=12, database=None, deadline=None, phases=[Phase.generate],
              suppress_health_check=list(HealthCheck))
    @given(apigen.geometry_calls(), apigen.geometry_calls())
    def collect(A, B):
        pairs.append((A, B))
    collect()
    # the first examples Hypothesis generates are the simplest ones whatever the seed: keep the last ones
    pairs = pairs[-2:] if ctx.tier == "thorough" else pairs[-1:]
    for A, B in pairs:
        trial_in_process((A, B, -1, False, "serial_ab"))
        nA, a1, b1 = trial_in_process((A, B, -1, False, "serial_ab"))     # counted in the warm state
        _, a2, b2 = trial_in_process((A, B, -1, False, "serial_ba"))
        step = 1 if ctx.tier == "thorough" else max(1, nA // 150)
        geo = (A[0] in apigen.GEOMETRY or A[0] in apigen.LISTY) and (B[0] in apigen.GEOMETRY or B[0] in apigen.LISTY)
        for k in range(0, nA, step):
            # serial references are computed once per pair; one traced trial per preemption point
            n, ta, (tb, where, fired) = sched.run_preempted(_mk(A), _mk(B), k, False)
            case = {"A": A, "B": B, "k": k, "cold": False, "opcodes": False, "sys": True}
            if fired and (ta not in (a1, a2) or tb not in (b1, b2)):
                judge(case, ctx.col)          # re-judge from scratch: raises the Violation with full context
                ctx.col.count("systematic_mismatch_not_reproduced")
            ctx.col.case(case, nontrivial=fired and 0 < k and geo,
                         classes=("systematic", "warm", f"A:{A[0]}", f"B:{B[0]}") + (("fired_inside",) if fired and k > 0 else ()) + (("both_geometry",) if geo else ()))
        if step == 1:
            ctx.col.exhaustive[f"every line preemption point of {A[0]} vs {B[0]} (shard {ctx.shard})"] = True


def stage_shared_slots(ctx):
    """Aim schedules at shared mutable state (lib/sharedstate.py): run generated calls one after another, watch which
    shared slots each call writes, and whenever a call overwrites a slot that an earlier call had written with a
    different value, give that pair of calls the systematic sweep (every line preemption point, both roles)."""
    import hypothesis
    from hypothesis import HealthCheck, Phase, given, settings
    from lib import sharedstate
    calls = []
    n = 700 if ctx.tier == "quick" else 6000

    @hypothesis.seed(ctx.shard_seed)
    @settings(max_examples=n, database=None, deadline=None, phases=[Phase.generate], suppress_health_check=list(HealthCheck))
    @given(apigen.geometry_calls(lo=2))
    def collect(c):
        calls.append(c)
    collect()
    forkoracle.api_result(calls[0])                      # make sure lazily created containers exist
    tr = sharedstate.Tracker()
    owner = {}                                           # slot -> (call, value digest)
    pairs = []
    per_slot_family = {}
    # after the generated calls, a long run of cheap calls on distinct cells (fills and overflows bounded caches)
    from lib import refids as _refids
    bulk_first = _refids.enc(9, ctx.shard % 12, ctx.shard % 5, 0)
    bulk = [["cell_to_lonlat", bulk_first + i * (1 << 42)] for i in range(6000 if ctx.tier == "quick" else 30000)]
    restores = {}
    for c in calls + bulk:
        forkoracle.api_result(c)
        for slot, old, new in tr.diff():
            prev = owner.get(slot)
            if prev is not None and prev[1] != new and prev[0] != c and prev[1] != "None":
                fam = slot.split("[")[0]
                if per_slot_family.get(fam, 0) < (2 if ctx.tier == "quick" else 6):
                    per_slot_family[fam] = per_slot_family.get(fam, 0) + 1
                    pairs.append((prev[0], c, slot))
                    if new == "<deleted>":
                        # the state just before c ran (c emptied/evicted entries): restored before every trial
                        cp = sharedstate.container_path(slot)
                        if cp in tr.previous:
                            restores[(repr(prev[0]), repr(c), slot)] = tr.previous[cp]
            if new == "<deleted>":
                owner.pop(slot, None)
            else:
                owner[slot] = (c, new)
    # container slots (list index / dict key collisions) first, scalar attributes (counters and the like) last
    pairs.sort(key=lambda p: ("__dict__" in p[2], ))
    ctx.col.count("shared_slots_written", len(owner))
    ctx.col.count("overwriting_call_pairs", len(pairs))
    budget = 1500 if ctx.tier == "quick" else 12000         # preempted trials per shard
    for X, Y, slot in pairs:
        name = sharedstate.slot_name(slot)
        codes = sharedstate.accessor_codes(name) or sharedstate.owner_codes(slot)
        if not codes:
            ctx.col.count("slot_without_accessor_code")
            continue
        for A, B in ((X, Y), (Y, X)):
            if budget <= 0:
                break
            # preemption points: every line A executes in the functions that refer to the slot's container by name
            rst = restores.get((repr(X), repr(Y), slot)) if (A, B) == (X, Y) else None

            def put_back():
                if rst is not None:
                    sharedstate.restore(rst[0], rst[1])      # the state in which Y evicted X's entry
                else:
                    forkoracle.api_result(A)                 # A's values are in the shared slots again
            put_back()
            nA, _, _ = sched.run_preempted(_mk(A), None, -1, False, only_codes=codes)
            # serial references once per pair (either order), then one warm-up + one trial per preemption point
            _, a1, b1 = trial_in_process((A, B, -1, False, "serial_ab"))
            _, a2, b2 = trial_in_process((A, B, -1, False, "serial_ba"))
            for k in range(0, nA):
                if budget <= 0:
                    break
                budget -= 1
                put_back()
                n, ta, (tb, where, fired) = sched.run_preempted(_mk(A), _mk(B), k, False, only_codes=codes)
                case = {"A": A, "B": B, "k": k, "cold": False, "opcodes": False, "sys": True, "slot": slot, "accessor": name}
                if fired and (ta not in (a1, a2) or tb not in (b1, b2)):
                    if rst is not None:
                        # the trial depends on a cache state reached after thousands of calls: report it as observed
                        raise Violation("A_differs_under_preemption" if ta not in (a1, a2) else "B_differs_inside_A",
                                        dict(case, needs_state="cache state just before B evicted A's entry (reached after a long run of calls)"),
                                        observed=_short(ta if ta not in (a1, a2) else tb), expected=_short(a1 if ta not in (a1, a2) else b1),
                                        note=f"preempted at {where}; slot {slot}")
                    judge(case, ctx.col)                 # re-judge from scratch: raises the Violation with full context
                    ctx.col.count("slot_sweep_mismatch_not_reproduced")
                ctx.col.case(case, nontrivial=fired and 0 < k, classes=("shared_slot_sweep", "fired_inside" if fired else "not_fired"))
    if pairs:
        ctx.col.notes.append({"shared_slot_pairs": [p[2] for p in pairs][:6]})


def stage_transient_state(ctx):
    """A call may change shared state and put it back before it returns (a class-level flag switched off 'for the
    moment', a module-level mode, a 'current' record): nothing differs before and after the call, so the slot diffs of
    `shared_slots` cannot see it, and the window is a handful of A's hundreds of preemption points. Every line of a
    palette of calls A is executed with a comparison of all scalar module-, class- and singleton-level values of the a5
    package against their values at the start of the call (lib/sharedstate.scan_transients); for every slot that differs
    somewhere inside A and is back at the end, A is preempted at the events of that window (all of them, capped) by
    each call of a palette B chosen to reach different code (cells of resolution 0, 1, 2 and deep, every public
    function), and judged like any other schedule."""
    from lib import sharedstate
    from lib import refids as _refids
    sh = ctx.shard
    deep = _refids.enc(17, (3 + sh) % 12, sh % 5, (4 ** 16) // 3 + sh)
    mid = _refids.enc(5, (7 + sh) % 12, (sh + 2) % 5, 100 + sh)
    r0 = _refids.enc(0, sh % 12, 0, 0)
    r1 = _refids.enc(1, (sh + 5) % 12, sh % 5, 0)
    r2 = _refids.enc(2, (sh + 1) % 12, (sh + 3) % 5, sh % 4)
    pt = ["t", -170.0 + 21.0 * sh, -80.0 + 10.0 * sh]
    palette_a = [["cell_to_lonlat", deep], ["cell_to_boundary", mid, {"segments": 3}], ["lonlat_to_cell", pt, 9], ["cell_to_boundary", r1],
                 ["cell_to_lonlat", r0], ["cell_to_boundary", r0], ["cell_to_parent", deep, 3], ["cell_to_children", mid, 7],
                 ["compact", ["l"] + [int(x) for x in _refids.children(r2, 3)]], ["uncompact", ["l", r2, mid], 6], ["lonlat_to_cell", pt, 0]]
    palette_b = [["cell_to_boundary", r0], ["cell_to_boundary", r1], ["cell_to_boundary", r2, {"segments": 2, "closed_ring": False}],
                 ["cell_to_lonlat", r0], ["cell_to_lonlat", deep], ["lonlat_to_cell", pt, 0], ["lonlat_to_cell", pt, 12], ["cell_to_boundary", deep],
                 ["cell_to_children", r0, 1], ["cell_to_parent", deep, 0], ["compact", ["l"] + [int(x) for x in _refids.children(r1, 2)]],
                 ["uncompact", ["l", r1], 3]]
    budget = 2500 if ctx.tier == "quick" else 20000
    found = 0
    for A in [palette_a[ctx.shard % len(palette_a)]]:
        sched._safe(_mk(A))                                   # warm: lazily built tables must not count as transient
        sched._safe(_mk(A))
        trans = sharedstate.scan_transients(_mk(A))
        ctx.col.case({"A": A, "transient_scan": True, "slots": sorted(trans)[:6]}, nontrivial=True, classes=("transient_scan",))
        for label, ks in sorted(trans.items()):
            found += 1
            cap = 12 if ctx.tier == "quick" else 60
            if len(ks) > cap:
                step = len(ks) / cap
                ks = [ks[int(i * step)] for i in range(cap)]
            for B in palette_b:
                _, a1, b1 = trial_in_process((A, B, -1, False, "serial_ab"))
                _, a2, b2 = trial_in_process((A, B, -1, False, "serial_ba"))
                for k in ks:
                    if budget <= 0:
                        break
                    budget -= 1
                    n, ta, (tb, where, fired) = sched.run_preempted(_mk(A), _mk(B), k, False)
                    case = {"A": A, "B": B, "k": k, "cold": False, "opcodes": False, "sys": True, "transient_slot": label}
                    if fired and (ta not in (a1, a2) or tb not in (b1, b2)):
                        judge(case, ctx.col)             # re-judge from scratch: raises the Violation with full context
                        ctx.col.count("transient_sweep_mismatch_not_reproduced")
                    ctx.col.case(case, nontrivial=bool(fired), classes=("transient_state_sweep",))
    ctx.col.count("transient_slots_found", found)


def cold_probe(payload):
    """Runs in a fresh fork of the pristine zygote. payload = (A, B, mode, k)
    'profile': trace A cold, trace A again warm -> (indices of line events that only the cold run has, resA, resB after)
    'serial_ba': B then A                       -> (resA, resB)
    'trial': A preempted at line event k by B, then A and B once more (latent damage) -> (fired, where, ta, tb, ta2, tb2)"""
    A, B, mode, k = payload
    if mode == "profile":
        cold, ra = sched.trace_lines(_mk(A))
        warm, _ = sched.trace_lines(_mk(A))
        warmset = set(warm)
        ks = [i for i, ln in enumerate(cold) if ln not in warmset]
        rb = sched._safe(_mk(B))
        return (ks, len(cold), ra, (rb, _sweep_digest()))
    if mode == "serial_ba":
        rb = sched._safe(_mk(B))
        ra = sched._safe(_mk(A))
        return (ra, (rb, _sweep_digest()))
    n, ta, (tb, where, fired) = sched.run_preempted(_mk(A), _mk(B), k)
    ta2 = sched._safe(_mk(A))
    tb2 = sched._safe(_mk(B))
    return (fired, where, ta, tb, ta2, (tb2, _sweep_digest()))


def _sweep_digest():
    """Digest of the centres of all 240 res-2 cells and the rings of the 12 faces: touches every lazily built
    per-triangle slot, so lingering damage to shared state shows up whatever triangle it sits in."""
    import hashlib
    from lib import refids
    h = hashlib.blake2b(digest_size=8)
    for c in refids.children(0, 2):
        h.update(repr(forkoracle.api_result(["cell_to_lonlat", c])).encode())
    for c in refids.children(0, 0):
        h.update(repr(forkoracle.api_result(["cell_to_boundary", c, {"segments": 2}])).encode())
    return h.hexdigest()


def cold_threads(payload):
    """Runs in a fresh fork of the pristine zygote: n real threads (1 microsecond switch interval) walk all 240 res-2
    cells from a cold start, each from a different offset, alternating cell_to_lonlat / cell_to_boundary; then one
    thread walks them again. Returns {call repr: set of distinct results seen}. n = 0: single-threaded reference."""
    import sys as _sys
    from lib import refids
    n, variant = payload
    cells = refids.children(0, 2)
    calls = [["cell_to_lonlat", c] if (i + variant) % 2 == 0 else ["cell_to_boundary", c, {"segments": 2}] for i, c in enumerate(cells)]
    seen = {}
    lock = threading.Lock()

    def walk(offset):
        for j in range(len(calls)):
            call = calls[(offset + j) % len(calls)]
            r = repr(forkoracle.api_result(call))
            with lock:
                seen.setdefault(repr(call), set()).add(r)
    if n == 0:
        walk(0)
        return {k: sorted(v) for k, v in seen.items()}
    old = _sys.getswitchinterval()
    _sys.setswitchinterval(1e-6)
    try:
        # even variants: every thread walks in the same order from the same cell (all first-ever uses collide);
        # odd variants: staggered starts
        ths = [threading.Thread(target=walk, args=((0 if variant % 2 == 0 else (i * len(calls)) // n) + variant,)) for i in range(n)]
        [t.start() for t in ths]
        [t.join() for t in ths]
    finally:
        _sys.setswitchinterval(old)
    walk(0)
    return {k: sorted(v) for k, v in seen.items()}


def stage_cold_init(ctx):
    """First-ever calls: in a fresh process, A is preempted at every line that only a cold run executes (lazy
    initialisation, cache fills) by a related call B that needs the same lazily built state; afterwards both calls are
    repeated in the same process (latent damage). Every trial runs in its own fork of a pristine zygote."""
    import hypothesis
    from hypothesis import HealthCheck, Phase, given, settings
    from lib import refids
    z = zygote()
    cells = []

    @hypothesis.seed(ctx.shard_seed)
    @settings(max_examples=14, database=None, deadline=None, phases=[Phase.generate], suppress_health_check=list(HealthCheck))
    @given(apigen.cell_arg(2, 29), st.integers(0, 3), st.integers(0, 5))
    def collect(c, sib, kind):
        cells.append((c, sib, kind))
    collect()
    cells = cells[-(1 if ctx.tier == "quick" else 5):]
    budget = 160 if ctx.tier == "quick" else 4000
    try:
        for c, sib, kind in cells:
            res = refids.res_of(c)
            sibs = refids.children(refids.parent(c, res - 1), res)
            other = sibs[sib % len(sibs)]
            A = [["cell_to_boundary", c], ["cell_to_lonlat", c], ["cell_to_boundary", c, {"segments": 2}]][kind % 3]
            B = [["cell_to_lonlat", other], ["cell_to_boundary", other], ["cell_to_lonlat", c]][kind // 2 % 3]
            ks, ncold, a1, b1 = z.call("checks.c16", "cold_probe", (A, B, "profile", -1))
            a2, b2 = z.call("checks.c16", "cold_probe", (A, B, "serial_ba", -1))
            if not ks:
                continue
            step = max(1, len(ks) // max(1, budget // max(1, len(cells))))
            for k in ks[::step]:
                fired, where, ta, tb, ta2, tb2 = z.call("checks.c16", "cold_probe", (A, B, "trial", k))
                case = {"A": A, "B": B, "k": k, "cold_init": True}
                if fired:
                    bad = None
                    if ta not in (a1, a2):
                        bad = ("A_differs_under_cold_preemption", ta, a1)
                    elif tb not in (b1[0], b2[0]):
                        bad = ("B_differs_inside_cold_A", tb, b1[0])
                    elif ta2 not in (a1, a2):
                        bad = ("A_differs_after_cold_interleaving", ta2, a1)
                    elif tb2[0] not in (b1[0], b2[0]):
                        bad = ("B_differs_after_cold_interleaving", tb2[0], b1[0])
                    elif tb2[1] not in (b1[1], b2[1]):
                        bad = ("later_calls_differ_after_cold_interleaving", tb2[1], b1[1])
                    if bad:
                        raise Violation(bad[0], case, observed=_short(bad[1]), expected=_short(bad[2]), note=f"A preempted at cold-only line {where}")
                ctx.col.case(case, nontrivial=bool(fired), classes=("cold_init", "cold", "fired_inside" if fired else "not_fired", f"A:{A[0]}", f"B:{B[0]}"))
            ctx.col.count("cold_only_line_events", len(ks))
        # real threads from a cold start (probabilistic supplement; cannot fail on a correct tree)
        ref = dict(z.call("checks.c16", "cold_threads", (0, 0)))
        ref.update(z.call("checks.c16", "cold_threads", (0, 1)))
        reps = 2 if ctx.tier == "quick" else 16
        for i in range(reps):
            nthreads = 2 + (i + ctx.shard) % 2
            got = z.call("checks.c16", "cold_threads", (nthreads, i + ctx.shard))
            ctx.col.bulk(1, 1, cls="cold_start_real_threads", sample={"threads": nthreads, "variant": i + ctx.shard})
            for call, results in got.items():
                want = ref.get(call)
                if want is not None and any(r not in want for r in results):
                    raise Violation("differs_under_cold_start_real_threads", {"cold_threads": [nthreads, i + ctx.shard], "call": call},
                                    observed=_short([r for r in results if r not in want][0]), expected=_short(want[0]),
                                    note="real threads, 1 us switch interval, first-ever calls (probabilistic)")
    finally:
        z.close()
        _zyg.clear()


def stage_threads(ctx):
    """Real threads with a 1 microsecond switch interval (probabilistic supplement)."""
    import hypothesis
    from hypothesis import HealthCheck, Phase, given, settings
    calls = []

    @hypothesis.seed(ctx.shard_seed)
    @settings(max_examples=60, database=None, deadline=None, phases=[Phase.generate], suppress_health_check=list(HealthCheck))
    @given(apigen.geometry_calls())
    def collect(c):
        calls.append(c)
    collect()
    expected = [forkoracle.api_result(c) for c in calls]
    old = sys.getswitchinterval()
    sys.setswitchinterval(1e-6)
    bad = []

    def worker(idx):
        for rep in range(7):
            for i in range(idx, len(calls), 2):
                got = forkoracle.api_result(calls[i])
                if got != expected[i]:
                    bad.append((i, got))
    try:
        ths = [threading.Thread(target=worker, args=(i % 2,)) for i in range(8)]
        for t in ths:
            t.start()
        for t in ths:
            t.join()
    finally:
        sys.setswitchinterval(old)
    ctx.col.bulk(8 * 7 * (len(calls) // 2), 0, cls="real_thread_calls", sample={"calls": calls[:2]})
    if bad:
        i, got = bad[0]
        raise Violation("differs_under_real_threads", {"threads": {"calls": calls, "failed_index": i}}, observed=_short(got),
                        expected=_short(expected[i]), note=f"{len(bad)} of {8 * 7 * (len(calls) // 2)} threaded calls differed (probabilistic)")


def plan(tier):
    s = [Stage("hyp", 16, stage_hyp, cost=6), Stage("systematic", 16, stage_systematic, cost=8), Stage("shared_slots", 16, stage_shared_slots, cost=7),
         Stage("cold_init", 16, stage_cold_init, cost=5), Stage("transient_state", 16, stage_transient_state, cost=4)]
    if tier == "thorough":
        s.append(Stage("threads", 4, stage_threads, cost=4))
    return s


def replay(rec, col):
    case = rec["case"]
    if "threads" in case:
        # probabilistic: re-run the recorded call list up to 20 times
        calls = case["threads"]["calls"]
        expected = [forkoracle.api_result(c) for c in calls]
        old = sys.getswitchinterval()
        sys.setswitchinterval(1e-6)
        bad = []

        def worker(idx):
            for i in range(idx, len(calls), 2):
                if forkoracle.api_result(calls[i]) != expected[i]:
                    bad.append(i)
        try:
            for _ in range(20):
                ths = [threading.Thread(target=worker, args=(i % 2,)) for i in range(8)]
                [t.start() for t in ths]
                [t.join() for t in ths]
                if bad:
                    break
        finally:
            sys.setswitchinterval(old)
        if bad:
            raise Violation("differs_under_real_threads", case, observed=f"call {bad[0]} differed", expected="sequential value")
        return
    try:
        judge(case, col)
    finally:
        if "z" in _zyg:
            _zyg["z"].close()
            _zyg.clear()
