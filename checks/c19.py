"""C19 — hex text form of an id round-trips for every 64-bit value (DESIGN.md §6 C19)."""
import re

from hypothesis import strategies as st

from lib import gens
from lib.runner import Stage, Violation, hyp_drive

RULE = ("n in [0,2^64): all 65,536 values of each of the four 16-bit lanes with the other lanes all-0 and all-1 (524,288 "
        "values, enumerated in both tiers), single bits, 2^k+-1, boundaries, all 2- and 3-bit values, products of ~280 interesting 32-bit halves (2^k, 16^k, +-1, ones prefixes/suffixes, repeated nibbles), valid cell ids of every shape, Hypothesis "
        "integers, atheris on raw bytes (thorough); call sequences over a small pool mixing ints with equal-valued floats, negative ints and malformed strings (rejected requests must not affect later in-domain calls). Oracle: round-trip, regex ^(0|[1-9a-f][0-9a-f]*)$, equality with '%x' % n, "
        "upper-case, mixed-case (alternating from either phase, value-derived per-digit mask) and zero-padded parsing. Non-trivial = n >= 2^32 (the repository suite stops below); distinct by n.")
ASSUMPTIONS = ["python's own '%x' formatting is the reference for canonical lower-case hexadecimal",
               "'parsing accepts upper case' is read per digit: any mixture of upper- and lower-case digits parses to the same value"]
PAT = re.compile(r"^(0|[1-9a-f][0-9a-f]*)$")


def judge_n(n, col=None, record=True, cls="hyp"):
    import a5
    case = {"n": n}
    try:
        s = a5.u64_to_hex(n)
    except Exception as e:  # noqa: BLE001
        raise Violation("u64_to_hex_raised", case, observed=f"{type(e).__name__}: {e}", expected="a string")
    if not isinstance(s, str) or not PAT.match(s) or s != "%x" % n:
        raise Violation("not_canonical_lowercase_hex", case, observed=s, expected="%x" % n)
    # per-digit case: alternating from either phase, and a mask derived from the value itself (no RNG of our own)
    alt0 = "".join(ch.upper() if i % 2 == 0 else ch for i, ch in enumerate(s))
    alt1 = "".join(ch.upper() if i % 2 == 1 else ch for i, ch in enumerate(s))
    mask = (n * 0x9E3779B97F4A7C15) >> 7
    mixed = "".join(ch.upper() if (mask >> i) & 1 else ch for i, ch in enumerate(s))
    for variant, kind in ((s, "round_trip"), (s.upper(), "upper_case"), ("000" + s, "leading_zeros"),
                          (alt0, "mixed_case"), (alt1, "mixed_case"), (mixed, "mixed_case"), ("0" + mixed.swapcase(), "mixed_case_leading_zero")):
        try:
            back = a5.hex_to_u64(variant)
        except Exception as e:  # noqa: BLE001
            raise Violation(kind + "_raised", case, observed=f"{type(e).__name__}: {e} for {variant!r}", expected=n)
        if back != n:
            raise Violation(kind, case, observed=back, expected=n)
    if record and col is not None:
        col.case(case, nontrivial=n >= 1 << 32, classes=(cls,))


def judge(case, col):
    if "seq" in case:
        return judge_sequence(case, col)
    judge_n(case["n"], col, cls=case.get("cls", "hyp"))


def stage_lanes(ctx):
    combos = [(lane, fill) for lane in range(4) for fill in (0, 1)]
    for lane, fill in combos[ctx.shard::ctx.nshards]:
        others = 0
        if fill:
            others = ((1 << 64) - 1) & ~(0xFFFF << (16 * lane))
        nt = 0
        for v in range(65536):
            n = others | (v << (16 * lane))
            judge_n(n, record=False)
            if n >= 1 << 32:
                nt += 1
        ctx.col.bulk(65536, nt, cls=f"lane{lane}_fill{fill}", sample={"n": others | (0x1234 << (16 * lane))})
    ctx.col.exhaustive["each 16-bit lane x others all-0/all-1"] = True


def stage_special(ctx):
    vals = {0, 1, (1 << 64) - 1, (1 << 63), (1 << 32), (1 << 32) - 1}
    for k in range(64):
        vals.update({1 << k, (1 << k) - 1, ((1 << k) + 1) & ((1 << 64) - 1)})
    for n in sorted(vals):
        judge_n(n, ctx.col, cls="special")


def stage_structured(ctx):
    """Values built from interesting 32-bit halves (0, 1, 2^k, 2^k+-1, 16^k, 16^k+-1, ones prefixes/suffixes, repeated
    nibbles) in both word positions, and every value with two or three bits set: implementations that format in words,
    lanes or digits go wrong at such alignments, not at random values."""
    M = 0xFFFFFFFF
    I = {0, 1, M}
    for k in range(32):
        I.update({(1 << k) & M, ((1 << k) - 1) & M, ((1 << k) + 1) & M, (M >> k) & M, (M << k) & M})
    for k in range(8):
        I.update({16 ** k, (16 ** k - 1) & M, (16 ** k + 1) & M})
    for d in range(1, 16):
        I.add(0x11111111 * d)
    I = sorted(I)
    n = nt = 0
    for a in I[ctx.shard::ctx.nshards]:
        for b in I:
            v = (a << 32) | b
            judge_n(v, record=False)
            n += 1
            nt += v >= 1 << 32
    if ctx.shard == 0:
        for i in range(64):
            for j in range(i):
                judge_n((1 << i) | (1 << j), record=False)
                n += 1
                nt += i >= 32
                for k in range(j):
                    judge_n((1 << i) | (1 << j) | (1 << k), record=False)
                    n += 1
                    nt += i >= 32
    ctx.col.bulk(n, nt, cls="structured_words_and_bits", sample={"n": (16 << 32) | 256})
    ctx.col.exhaustive["interesting 32-bit halves squared; all 2- and 3-bit values"] = True


def cases():
    return st.one_of(st.integers(0, (1 << 64) - 1), st.integers(1 << 32, (1 << 64) - 1),
                     gens.cell_ids(0, 29), st.integers(0, 63).flatmap(lambda k: st.integers(0, (1 << k))).map(lambda x: x)
                     ).map(lambda n: {"n": n})


def stage_hyp(ctx):
    hyp_drive(ctx, cases(), judge, 3000 if ctx.tier == "quick" else 50000)


def judge_sequence(case, col):
    """In-domain calls must be right whatever was asked before, including requests the library rejects: sequences over
    a small pool mixing ints with equal-valued floats, out-of-range and negative ints, and malformed strings."""
    import a5
    for kind, v in case["seq"]:
        if kind == "int":
            try:
                judge_n(v, record=False)
            except Violation as e:
                raise Violation(e.kind + "_after_other_calls", case, observed=e.observed, expected=e.expected, note=f"for n={v}")
        elif kind == "float":
            try:
                a5.u64_to_hex(float(v))
            except Exception:  # noqa: BLE001 - out of domain: any outcome is allowed, it just must not poison later calls
                pass
        elif kind == "neg":
            try:
                a5.u64_to_hex(-v)
            except Exception:  # noqa: BLE001
                pass
        elif kind == "str":
            try:
                a5.hex_to_u64(v)
            except Exception:  # noqa: BLE001
                pass
    col.case(case, nontrivial=any(k != "int" for k, _ in case["seq"]) and any(k == "int" and v >= 1 << 32 for k, v in case["seq"]),
             classes=("sequence",))


def sequences():
    small = st.one_of(st.integers(0, 1 << 53), st.integers(0, 1000), gens.cell_ids(0, 12))
    pool = st.lists(small, min_size=1, max_size=3)

    def seqs(vals):
        item = st.one_of(st.tuples(st.just("int"), st.sampled_from(vals)), st.tuples(st.just("int"), st.sampled_from(vals)),
                         st.tuples(st.just("float"), st.sampled_from(vals)), st.tuples(st.just("neg"), st.sampled_from(vals)),
                         st.tuples(st.just("str"), st.sampled_from(["", "0x", "xyz", "-1", " 1f", "1f "])),
                         st.tuples(st.just("int"), st.integers(1 << 32, (1 << 64) - 1)))
        return st.lists(item, min_size=2, max_size=8)
    return pool.flatmap(seqs).map(lambda q: {"seq": [list(x) for x in q]})


def stage_sequences(ctx):
    hyp_drive(ctx, sequences(), judge_sequence, 600 if ctx.tier == "quick" else 15000)


def decode_case(fdp):
    return {"n": fdp.ConsumeIntInRange(0, (1 << 64) - 1), "cls": "fuzz"}


def stage_fuzz(ctx):
    from lib import fuzz
    fuzz.run(ctx, "C19", decode_case, judge, runs=200000)


def plan(tier):
    st_ = [Stage("lanes", 8, stage_lanes, cost=5), Stage("special", 1, stage_special), Stage("hyp", 8, stage_hyp, cost=3), Stage("sequences", 4, stage_sequences, cost=2),
           Stage("structured", 4, stage_structured, cost=3)]
    if tier == "thorough":
        st_.append(Stage("fuzz", 2, stage_fuzz, cost=5))
    return st_


def replay(rec, col):
    judge(rec["case"], col)
