"""C10 — uncompact expands each cell to exactly its descendants at the target level (DESIGN.md §6 C10)."""
import copy

from hypothesis import strategies as st

from lib import gens, refids
from lib.runner import Stage, Violation, hyp_drive

RULE = ("(list of cells with repeats in any order, target t): resolutions -1..29, t in 0..29, total expansion <= 4^7 (plus a stage of outputs of 65 000-400 000 cells); a class of contiguous runs (slices of a cell's descendants starting anywhere, with gaps); a "
        "further class has one element (first/middle/last) finer than t and must raise. Oracle: output = concatenation in "
        "input order of blocks of refids.nchildren(res,t) ids, each block a permutation of the reference descendants, "
        "all of res t, each mapping back through cell_to_parent; length = sum of get_num_children; argument unchanged. "
        "Non-trivial = >=2 input cells of different resolutions and output longer than input (or the error class); "
        "distinct by (cells, t).")
ASSUMPTIONS = ["documented id layout is the specification (refids)"]
REQUIRED_CLASSES = {"mixed_resolutions": ("ok", 0.2), "error_class": (None, 0.1), "has_repeats": ("ok", 0.05), "contiguous_run>=16": ("ok", 0.01)}
BUDGET = 4 ** 7


def judge(case, col):
    import a5
    from a5.core import cell_info
    cells = [int(x, 16) for x in case["cells"]]
    t = case["t"]
    arg = list(cells)
    snapshot = copy.deepcopy(arg)
    resl = [refids.res_of(c) for c in cells]
    should_raise = any(r > t for r in resl)
    try:
        out = a5.uncompact(arg, t)
    except ValueError as e:
        if should_raise:
            if arg != snapshot:
                raise Violation("argument_modified", case, observed="list changed", expected="unchanged")
            col.case(case, nontrivial=True, classes=("error_class", f"err_pos_{case.get('pos', '?')}"))
            return
        raise Violation("uncompact_raised", case, observed=f"ValueError: {e}", expected="expansion")
    except Exception as e:  # noqa: BLE001
        raise Violation("uncompact_raised", case, observed=f"{type(e).__name__}: {e}", expected="ValueError" if should_raise else "expansion")
    if should_raise:
        raise Violation("finer_cell_accepted", case, observed=f"{len(out)} cells returned", expected="ValueError")
    if arg != snapshot:
        raise Violation("argument_modified", case, observed="list changed", expected="unchanged")
    want_len = sum(refids.nchildren(r, t) for r in resl)
    lib_len = sum(cell_info.get_num_children(r, t) for r in resl)
    if len(out) != want_len or lib_len != want_len:
        raise Violation("output_length", case, observed=(len(out), lib_len), expected=want_len)
    off = 0
    for c, r in zip(cells, resl):
        n = refids.nchildren(r, t)
        block = out[off:off + n]
        ref = refids.children(c, t)
        # the statement fixes which cells make up a block and where the block sits, not the order inside it
        # (the ascending order of cell_to_children is C06's clause)
        if sorted(block) != sorted(ref):
            raise Violation("block_set_mismatch", case, observed=[hex(x) for x in block[:4]], expected="reference descendants", note=f"cell {hex(c)} at offset {off}")
        for k in (block if n <= 256 else block[::max(1, n // 128)]):
            if a5.get_resolution(k) != t:
                raise Violation("output_resolution", case, observed=a5.get_resolution(k), expected=t)
            if a5.cell_to_parent(k, r) != c:
                raise Violation("output_parent", case, observed=hex(a5.cell_to_parent(k, r)), expected=hex(c))
        off += n
    classes = ["ok"]
    if len(set(resl)) >= 2:
        classes.append("mixed_resolutions")
    if len(set(cells)) < len(cells):
        classes.append("has_repeats")
    if -1 in resl:
        classes.append("has_world")
    # longest run of numerically consecutive same-resolution ids
    best = cur = 1
    for a, b, ra, rb in zip(cells, cells[1:], resl, resl[1:]):
        if ra == rb and ra >= 2 and b - a == 1 << (60 - 2 * ra):
            cur += 1
            best = max(best, cur)
        else:
            cur = 1
    if best >= 16:
        classes.append("contiguous_run>=16")
    col.case(case, nontrivial=len(set(resl)) >= 2 and len(out) > len(cells), classes=classes)


@st.composite
def cases(draw):
    t = draw(gens.resolutions(0, 29))
    n = draw(st.integers(0, 8))
    cells = []
    budget = BUDGET
    for _ in range(n):
        # pick a resolution whose expansion still fits the budget
        lo = t
        while lo - 1 >= -1 and refids.nchildren(lo - 1, t) <= budget:
            lo -= 1
        r = draw(st.integers(lo, t))
        if cells and draw(st.integers(0, 5)) == 0:
            c = draw(st.sampled_from(cells))       # a repeat
            r = refids.res_of(c)
            if refids.nchildren(r, t) > budget:
                continue
        else:
            c = draw(gens.cell_ids(max(r, 0), max(r, 0))) if r >= 0 else 0
        budget -= refids.nchildren(r, t)
        cells.append(c)
    if t >= 3 and draw(st.integers(0, 3)) == 0:
        # contiguous runs: a slice of some cell's descendants (what a filled region refined further looks like),
        # starting anywhere (not only on sibling-group boundaries), optionally with a few gaps
        d = draw(st.integers(1, 2))
        r = t - d                                        # resolution of the run's cells
        span = draw(st.integers(2, 3))
        if r - span >= 1:
            base = draw(gens.cell_ids(r - span, r - span))
            pool = refids.children(base, r)              # 16 or 64 consecutive cells
            i = draw(st.integers(0, len(pool) - 2))
            j = draw(st.integers(i + 1, len(pool)))
            run = pool[i:j]
            ngap = draw(st.integers(0, 2))
            for _ in range(ngap):
                if len(run) > 2:
                    del run[draw(st.integers(0, len(run) - 1))]
            if sum(refids.nchildren(r, t) for _ in run) <= BUDGET:
                pre = cells[:1] if draw(st.booleans()) else []
                cells = pre + run
    case = {"cells": [hex(c) for c in cells], "t": t}
    if t < 29 and draw(st.integers(0, 3)) == 0:
        finer = draw(gens.cell_ids(t + 1, min(29, t + 3)))
        pos = draw(st.sampled_from(["first", "middle", "last"]))
        i = {"first": 0, "middle": len(cells) // 2, "last": len(cells)}[pos]
        cells.insert(i, finer)
        case = {"cells": [hex(c) for c in cells], "t": t, "pos": pos}
    return case


def stage_large(ctx):
    """A few outputs of 65 000 - 400 000 cells (pre-sizing, chunking and bulk paths live up there): one or two cells
    8-9 levels above the target mixed with cells already at the target and one level above, in several orders."""
    import itertools as _it
    ts = [10, 13, 21, 29] if ctx.tier == "quick" else [9, 10, 11, 13, 17, 21, 25, 28, 29]
    jobs = []
    for t in ts:
        big = refids.enc(t - 8, (t * 5) % 12, t % 5, (4 ** (t - 9)) // 3 if t - 9 > 0 else 0)
        big2 = refids.enc(t - 8, (t * 7 + 3) % 12, (t + 2) % 5, 1 if t - 9 > 0 else 0)
        bigger = refids.enc(t - 9, 3, 1, 0) if t - 9 >= 2 else None
        same = refids.enc(t, 1, 2, (4 ** (t - 1)) // 5)
        near = refids.enc(t - 1, 2, 3, (4 ** (t - 2)) // 7)
        for cells in ([big, same], [same, big, same, near], [big, big2, same], [near, big, near, same, same]):
            jobs.append((cells, t))
        if bigger is not None and ctx.tier == "thorough":
            jobs.append(([bigger, same, near], t))
    for cells, t in jobs[ctx.shard::ctx.nshards]:
        case = {"cells": [hex(c) for c in cells], "t": t, "large": True}
        judge(case, ctx.col)


def stage_hyp(ctx):
    hyp_drive(ctx, cases(), judge, 700 if ctx.tier == "quick" else 5000)


def decode_case(fdp):
    t = fdp.ConsumeIntInRange(0, 29)
    n = fdp.ConsumeIntInRange(0, 6)
    cells = []
    budget = BUDGET
    for _ in range(n):
        r = fdp.ConsumeIntInRange(max(-1, t - 7), min(29, t + 1))
        if r == -1:
            c = 0
        else:
            S = fdp.ConsumeIntInRange(0, max(0, 4 ** (r - 1) - 1)) if r >= 2 else 0
            c = refids.enc(r, fdp.ConsumeIntInRange(0, 11), fdp.ConsumeIntInRange(0, 4) if r >= 1 else 0, S)
        k = refids.nchildren(r, t) if r <= t else 0
        if k > budget:
            continue
        budget -= k
        cells.append(c)
    return {"cells": [hex(c) for c in cells], "t": t, "pos": "fuzz"}


def stage_fuzz(ctx):
    from lib import fuzz
    fuzz.run(ctx, "C10", decode_case, judge, runs=30000)


def plan(tier):
    s = [Stage("hyp", 16, stage_hyp, cost=5), Stage("large", 16, stage_large, cost=7)]
    if tier == "thorough":
        s.append(Stage("fuzz", 4, stage_fuzz, cost=6))
    return s


def replay(rec, col):
    judge(rec["case"], col)
