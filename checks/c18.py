"""C18 — curve index <-> lattice position is a bijection for all orientations and levels (DESIGN.md §6 C18)."""
import math

from hypothesis import strategies as st

from lib import gens
from lib.runner import Stage, Violation, hyp_drive

RULE = ("(orientation, level h, index S): exhaustive S in [0,4^h) for all six orientations and h<=6 (quick) / <=8 (thorough, "
        "6*87,380 indices) with a planar certificate per (h, orientation): round trip index->anchor->pentagon centre->IJ->index; "
        "4^h distinct centres inside the segment triangle; no directed edge twice, every interior edge matched by its reverse; "
        "areas sum to the triangle's; same pentagon set for all orientations; u-w boundary chain rotated 72deg is the reverse of "
        "the u-v chain (2^(h+1)-1 edges); prefix rule (centre within 1.5*sqrt(level-k pentagon area) of its level-k ancestor). "
        "h 9..28: digit-pattern-directed and uniform S (round trip + prefix rule). Non-trivial = S has >=2 distinct non-zero "
        "quaternary digits; exhaustive cases are distinct by construction.")
ASSUMPTIONS = ["segment triangle = a5.core.pentagon TRIANGLE (u,v,w) in quintant 0; the outer (v-w) side is certified on the sphere by C03"]
ORIENTS = ["uv", "vu", "uw", "wu", "vw", "wv"]
_L = {}


def _lib():
    if not _L:
        from a5.core.hilbert import s_to_anchor, ij_to_s
        from a5.core.tiling import get_pentagon_vertices
        from a5.core.coordinate_transforms import face_to_ij
        from a5.core import pentagon as P
        _L.update(s_to_anchor=s_to_anchor, ij_to_s=ij_to_s, gpv=get_pentagon_vertices, face_to_ij=face_to_ij,
                  tri=(tuple(P.u), tuple(P.v), tuple(P.w)))
        u, v, w = _L["tri"]
        _L["tri_area"] = 0.5 * abs((v[0] - u[0]) * (w[1] - u[1]) - (v[1] - u[1]) * (w[0] - u[0]))
    return _L


def nontrivial_S(S):
    digs = set()
    while S:
        d = S & 3
        if d:
            digs.add(d)
        S >>= 2
    return len(digs) >= 2


def pentagon_of(S, h, o, case):
    L = _lib()
    try:
        anchor = L["s_to_anchor"](S, h, o)
        pent = L["gpv"](h, 0, anchor)
        verts = [tuple(v) for v in pent.get_vertices()]
        c = pent.get_center()
    except Exception as e:  # noqa: BLE001
        raise Violation("index_to_cell_raised", case, observed=f"{type(e).__name__}: {e}", expected="a pentagon")
    return verts, c


def round_trip(S, h, o, case):
    L = _lib()
    verts, c = pentagon_of(S, h, o, case)
    sc = 2 ** h
    try:
        ij = L["face_to_ij"]((c[0] * sc, c[1] * sc))
        back = L["ij_to_s"](ij, h, o)
    except Exception as e:  # noqa: BLE001
        raise Violation("cell_to_index_raised", case, observed=f"{type(e).__name__}: {e}", expected=S)
    if back != S:
        raise Violation("index_round_trip", case, observed=back, expected=S)
    return verts, c


def prefix_rule(S, h, o, c, case, ks):
    L = _lib()
    for k in ks:
        if not (1 <= k < h):
            continue
        _, ck = pentagon_of(S >> (2 * (h - k)), k, o, case)
        bound = 1.5 * math.sqrt(L["tri_area"] / 4 ** k)
        d = math.hypot(c[0] - ck[0], c[1] - ck[1])
        if d > bound:
            raise Violation("prefix_not_ancestor", {**case, "k": k}, observed=f"{d / math.sqrt(L['tri_area'] / 4 ** k):.3f} level-{k} widths", expected="<= 1.5")
        yield d / math.sqrt(L["tri_area"] / 4 ** k)


class VertexIndex:
    def __init__(self, tol):
        self.tol = tol
        self.grid = {}
        self.n = 0

    def get(self, p):
        t = self.tol
        gx, gy = math.floor(p[0] / t), math.floor(p[1] / t)
        for dx in (-1, 0, 1):
            for dy in (-1, 0, 1):
                for (x, y, i) in self.grid.get((gx + dx, gy + dy), ()):
                    if abs(x - p[0]) <= t and abs(y - p[1]) <= t:
                        return i
        i = self.n
        self.n += 1
        self.grid.setdefault((gx, gy), []).append((p[0], p[1], i))
        return i


def _inside_tri(p, tri, eps):
    u, v, w = tri
    def cr(a, b, c):
        return (b[0] - a[0]) * (c[1] - a[1]) - (b[1] - a[1]) * (c[0] - a[0])
    s = 1 if cr(u, v, w) > 0 else -1
    return s * cr(u, v, p) >= -eps and s * cr(v, w, p) >= -eps and s * cr(w, u, p) >= -eps


def certificate(h, o, col):
    """Planar certificate for one (level, orientation). Returns the canonical pentagon set (for (iv))."""
    L = _lib()
    n = 4 ** h
    tol = 1e-5 * 2.0 ** (-h)
    vi = VertexIndex(tol)
    edges = {}
    centres = set()
    area = 0.0
    pset = set()
    coords = {}
    nt = 0
    worst_prefix = 0.0
    orient = None
    for S in range(n):
        case = {"S": S, "h": h, "o": o}
        verts, c = round_trip(S, h, o, case)
        for r in prefix_rule(S, h, o, c, case, range(1, h)):
            worst_prefix = max(worst_prefix, r)
        if not _inside_tri(c, L["tri"], 1e-12):
            raise Violation("centre_outside_segment_triangle", case, observed=c, expected="inside u-v-w")
        ck = (round(c[0] / tol), round(c[1] / tol))
        if ck in centres:
            raise Violation("two_indices_same_cell", case, observed=c, expected="pairwise distinct cells")
        centres.add(ck)
        ids = [vi.get(v) for v in verts]
        for i, v in zip(ids, verts):
            coords[i] = v
        if len(set(ids)) != len(ids):
            raise Violation("degenerate_pentagon", case, observed=verts, expected="5 distinct vertices")
        a = 0.0
        m = len(verts)
        for i in range(m):
            x0, y0 = verts[i]
            x1, y1 = verts[(i + 1) % m]
            a += x0 * y1 - x1 * y0
            e = (ids[i], ids[(i + 1) % m])
            if e in edges:
                raise Violation("cells_overlap_directed_edge_twice", case, observed=f"edge shared with S={edges[e]}", expected="each directed edge once")
            edges[e] = S
        if a == 0 or (orient is not None and (a > 0) != orient):
            raise Violation("pentagon_orientation_inconsistent", case, observed=a / 2, expected="same winding for every cell")
        orient = a > 0
        area += abs(a) / 2
        pset.add(tuple(sorted(ids)))
        nt += nontrivial_S(S)
    rel = abs(area / L["tri_area"] - 1)
    col.measure("area_sum_rel_err", rel, {"h": h, "o": o})
    if rel > 1e-12 * max(1, n ** 0.5):
        raise Violation("areas_do_not_fill_triangle", {"h": h, "o": o}, observed=area, expected=L["tri_area"])
    boundary = [e for e in edges if (e[1], e[0]) not in edges]
    # (v) the u-w boundary chain rotated by +72 degrees about u is the reverse of the u-v chain
    c72, s72 = math.cos(2 * math.pi / 5), math.sin(2 * math.pi / 5)

    def rot(p):
        return (c72 * p[0] - s72 * p[1], s72 * p[0] + c72 * p[1])
    bset = set(boundary)
    # look-up of vertex ids by position without inserting
    def find(p):
        t = vi.tol
        gx, gy = math.floor(p[0] / t), math.floor(p[1] / t)
        for dx in (-1, 0, 1):
            for dy in (-1, 0, 1):
                for (x, y, i) in vi.grid.get((gx + dx, gy + dy), ()):
                    if abs(x - p[0]) <= t and abs(y - p[1]) <= t:
                        return i
        return None
    matched = 0
    for (a_, b_) in boundary:
        ra, rb = find(rot(coords[a_])), find(rot(coords[b_]))
        if ra is not None and rb is not None and (rb, ra) in bset:
            matched += 1
    want = 2 ** (h + 1) - 1
    if matched != want:
        raise Violation("quintant_sides_do_not_mate", {"h": h, "o": o}, observed=matched, expected=want)
    col.measure("prefix_drift_level_widths", worst_prefix, {"h": h, "o": o})
    col.bulk(n, nt, cls=f"exhaustive_h{h}", sample={"S": n // 3, "h": h, "o": o})
    return frozenset(coords[i] and (round(coords[i][0] / tol / 10), round(coords[i][1] / tol / 10)) for ids in pset for i in ids), len(pset), len(boundary)


def stage_exhaustive(ctx):
    maxh = 6 if ctx.tier == "quick" else 8
    jobs = [(h, o) for h in range(maxh, 0, -1) for o in ORIENTS]
    # levels are split so that each shard gets one orientation of the big levels
    mine = jobs[ctx.shard::ctx.nshards]
    sig = {}
    for h, o in mine:
        s, npent, nb = certificate(h, o, ctx.col)
        sig[(h, o)] = (hash(s), npent, nb)
    ctx.col.notes.append({"pentagon_set_signatures": {f"{h}/{o}": v for (h, o), v in sig.items()}})
    ctx.col.exhaustive[f"all S for h<={maxh}, six orientations"] = True


def stage_same_set(ctx):
    """(iv) the set of pentagons is the same for all six orientations (h <= 5 quick / 6 thorough, one shard per level)."""
    L = _lib()
    maxh = 5 if ctx.tier == "quick" else 7
    for h in list(range(1, maxh + 1))[ctx.shard::ctx.nshards]:
        tol = 1e-5 * 2.0 ** (-h)
        ref = None
        for o in ORIENTS:
            cur = set()
            for S in range(4 ** h):
                verts, c = pentagon_of(S, h, o, {"S": S, "h": h, "o": o})
                cur.add((round(c[0] / tol / 10), round(c[1] / tol / 10)))
            if ref is None:
                ref = cur
            elif cur != ref:
                raise Violation("orientations_cover_different_cells", {"h": h, "o": o}, observed=len(cur ^ ref), expected=0)
        ctx.col.bulk(1, 1, cls="same_set_level", sample={"h": h})


def judge(case, col):
    S, h, o = case["S"], case["h"], case["o"]
    verts, c = round_trip(S, h, o, case)
    ks = case.get("ks") or [1, h // 2, h - 1]
    for r in prefix_rule(S, h, o, c, case, ks):
        col.measure("prefix_drift_level_widths", r, case)
    col.case(case, nontrivial=nontrivial_S(S), classes=("hyp", f"h{h:02d}", "o_" + o))


def cases():
    return st.integers(9, 28).flatmap(
        lambda h: st.builds(lambda S, o, k: {"S": S, "h": h, "o": o, "ks": [1, k % h or 1, h - 1]},
                            gens.hilbert_S(h), st.sampled_from(ORIENTS), st.integers(1, 28)))


def stage_hyp(ctx):
    hyp_drive(ctx, cases(), judge, 1500 if ctx.tier == "quick" else 40000)


def plan(tier):
    return [Stage("exhaustive", 16, stage_exhaustive, cost=10), Stage("same_set", 6, stage_same_set, cost=3),
            Stage("hyp", 10, stage_hyp, cost=4)]


def replay(rec, col):
    case = rec["case"]
    if "S" in case:
        judge(case, col)
    else:
        certificate(case["h"], case["o"], col)
