"""C12 — boundary rings are well-formed polygons under every option combination (DESIGN.md §6 C12)."""
import copy
import math

from hypothesis import strategies as st

from lib import gens, refgeo, refids
from lib.runner import Stage, Violation, HarnessError, hyp_drive, guarded

RULE = ("cell x closed_ring in {True,False,omitted} x segments in {omitted,None,'auto',1,2,3,7,16} (24 option sets per cell, "
        "plus options=None and {} and one further explicit segments value per cell from 4..257 around powers of two): all cells of res 0..4 (quick) / 0..6 (thorough) and Hypothesis cells of res 4..29 by id "
        "construction and by location (antimeridian, polar caps, exact poles, frame points); every cell of the first rings around both poles at 6/28 resolutions. Oracle: vertex count (3 at res 1 "
        "else 5)*k (+1 iff closed), k=max(1,2^(6-res)) for the auto spellings; closed => first==last; latitudes in [-90,90]; "
        "ring simple and counter-clockwise in the gnomonic plane about the centre; segments=1 corners occur in every k-ring "
        "(<=1e-7 L) exactly k apart in the same cyclic order; options dict not mutated; if no pole within 1e-3 L of the cell: "
        "consecutive longitudes differ <180 and span <180. One case = one (cell, option set). Non-trivial = cell crosses the "
        "antimeridian, or contains/touches a pole, or res<=1, or k>=7; distinct by (cell, options).")
ASSUMPTIONS = ["simplicity/orientation judged in the gnomonic plane about the cell centre (great circles are straight there)"]
REQUIRED_CLASSES = {"crosses_antimeridian": ("hyp_cell", 0.03), "pole_cell": ("hyp_cell", 0.02)}

SEGS = ["omit", None, "auto", 1, 2, 3, 7, 16]
CLOSED = ["omit", True, False]


def _a5():
    import a5
    return a5


def _opts(seg, closed):
    o = {}
    if seg != "omit":
        o["segments"] = seg
    if closed != "omit":
        o["closed_ring"] = closed
    return o


def _cyclic_equal(a, b):
    if len(a) != len(b):
        return False
    if not a:
        return True
    try:
        i = b.index(a[0])
    except ValueError:
        return False
    return b[i:] + b[:i] == a


def geometry_checks(ring, cell, res, k, centre, corners, case, L):
    """ring: open ring (list of (lon,lat)). corners: the segments=1 open ring."""
    base = 3 if res == 1 else 5
    n = len(ring)
    for (lon, lat) in ring:
        if not (-90.0 <= lat <= 90.0) or not math.isfinite(lon):
            raise Violation("latitude_out_of_range", case, observed=(lon, lat), expected="lat in [-90,90]")
    pts = refgeo.ring_to_plane(ring, centre)
    if any(not math.isfinite(x) for p in pts for x in p):
        raise Violation("vertex_on_far_side", case, observed="vertex >= 90 deg from the cell centre", expected="ring around the centre")
    area = refgeo.signed_area_planar(pts)
    if not area > 0:
        raise Violation("ring_not_counter_clockwise", case, observed=area, expected="> 0")
    if n <= 400:
        simple = refgeo.ring_is_simple(pts)
        if n >= 40 and refgeo.ring_is_simple_grid(pts) != simple:
            raise HarnessError(f"grid and quadratic simplicity tests disagree on a ring of {n} vertices of {case}")
    else:
        simple = refgeo.ring_is_simple_grid(pts)        # bucketed test, cross-checked against the quadratic one on every smaller ring
    if not simple:
        raise Violation("ring_not_simple", case, observed="self-intersection or repeated vertex", expected="simple ring")
    # corners of the segments=1 ring occur exactly k apart, same cyclic order
    idx = []
    for c in corners:
        best = min(range(n), key=lambda i: abs(ring[i][1] - c[1]) + abs(math.remainder(ring[i][0] - c[0], 360.0)) * math.cos(math.radians(min(89.9, abs(c[1])))))
        d = refgeo.gc_dist(ring[best], c)
        if d > 1e-7 * L:
            raise Violation("corner_depends_on_segments", case, observed=f"nearest vertex {d / L:.3g} cell widths from a segments=1 corner", expected="<= 1e-7")
        idx.append(best)
    if len(idx) != base:
        raise Violation("corner_count", case, observed=len(idx), expected=base)
    rel = [(i - idx[0]) % n for i in idx]
    want = [(j * k) % n for j in range(base)]
    if rel != want:
        raise Violation("corners_not_k_apart_in_order", case, observed=rel, expected=want)


def lon_checks(ring_as_returned, case):
    lons = [p[0] for p in ring_as_returned]
    for a, b in zip(lons, lons[1:]):
        if abs(a - b) >= 180.0:
            raise Violation("longitude_jump", case, observed=(a, b), expected="consecutive longitudes differ by < 180")
    if max(lons) - min(lons) >= 180.0:
        raise Violation("longitude_span", case, observed=(min(lons), max(lons)), expected="span < 180")


def judge_cell(cell, col, cls, enumerated=False, only_segments=None):
    a5 = _a5()
    res = refids.res_of(cell)
    base = 3 if res == 1 else 5
    L = refgeo.cell_width(res)
    cid = hex(cell)
    centre = guarded(a5.cell_to_lonlat, cell, kind="cell_to_lonlat_raised", case={"cell": cid})
    corners = guarded(a5.cell_to_boundary, cell, {"segments": 1, "closed_ring": False}, kind="cell_to_boundary_raised", case={"cell": cid, "opts": {"segments": 1, "closed_ring": False}})
    if len(corners) != base:
        raise Violation("vertex_count", {"cell": cid, "opts": {"segments": 1, "closed_ring": False}}, observed=len(corners), expected=base)
    # pole in or on the cell?
    pole = False
    fine = a5.cell_to_boundary(cell, {"segments": 8, "closed_ring": False})
    for plat in (90.0, -90.0):
        if abs(centre[1] - plat) * math.pi / 180 < 3 * L + 0.01:
            inside, margin, _ = refgeo.ring_margin((0.0, plat), fine)
            if inside or margin < 1e-3 * L + refgeo.edge_tol(8, res) * L:
                pole = True
    lons1 = [p[0] for p in corners]
    crosses = (not pole) and (max(lons1) > 180.0 or min(lons1) < -180.0)
    geo_done = {}
    ncases = nnt = 0
    sample = None
    calls = [("none", None), ("empty", {})] + [((s, c), _opts(s, c)) for s in SEGS for c in CLOSED]
    # the statement says "segments: integer >= 1": one further value per cell from a pool of boundary values,
    # chosen by the cell id (deterministic), both ring kinds
    pool = (4, 5, 6, 8, 9, 12, 15, 17, 31, 32, 33, 63, 64, 65, 100, 127, 128, 129, 200, 255, 256, 257)
    extra = pool[(cell >> 7 ^ cell >> 23 ^ cell >> 41 ^ cell >> 58) % len(pool)]
    calls += [((extra, True), _opts(extra, True)), ((extra, False), _opts(extra, False))]
    # an option value that is equal to 'auto' but is not the interned literal (read from a file, built at run time)
    calls.append((("auto_runtime", True), {"segments": "".join(("au", "to"))}))
    if only_segments is not None:
        calls = [((k, (k + res) % 2 == 0), _opts(k, (k + res) % 2 == 0)) for k in only_segments]
    for tag, opts in calls:
        case = {"cell": cid, "opts": opts if opts is None else {k: v for k, v in opts.items()}}
        snap = copy.deepcopy(opts)
        ring = guarded(a5.cell_to_boundary, cell, opts, kind="cell_to_boundary_raised", case=case) if opts is not None else \
            guarded(a5.cell_to_boundary, cell, kind="cell_to_boundary_raised", case=case)
        if opts != snap:
            raise Violation("options_mutated", case, observed=opts, expected=snap)
        seg = (opts or {}).get("segments", "auto")
        closed = (opts or {}).get("closed_ring", True)
        k = max(1, 2 ** (6 - res)) if seg in ("auto", None) else seg
        want = base * k + (1 if closed else 0)
        if not isinstance(ring, list) or len(ring) != want:
            raise Violation("vertex_count", case, observed=len(ring), expected=want)
        if closed and ring[0] != ring[-1]:
            raise Violation("ring_not_closed", case, observed=(ring[0], ring[-1]), expected="first == last")
        if not closed and ring[0] == ring[-1]:
            raise Violation("open_ring_repeats_first_vertex", case, observed=ring[0], expected="no repeated vertex")
        open_ring = ring[:-1] if closed else ring
        prev = geo_done.get(k)
        if prev is None or not _cyclic_equal(open_ring, prev):
            geometry_checks(open_ring, cell, res, k, centre, corners, case, L)
            if prev is None:
                geo_done[k] = open_ring
        if not pole:
            lon_checks(ring, case)
        ncases += 1
        nt = crosses or pole or res <= 1 or k >= 7
        nnt += nt
        if sample is None and nt:
            sample = case
        if not enumerated:
            col.case(case, nontrivial=nt, classes=())
    classes = ["cell", cls + "_cell"]
    if crosses:
        classes.append("crosses_antimeridian")
    if pole:
        classes.append("pole_cell")
    if enumerated:
        col.bulk(ncases, nnt, cls="enum_option_sets", sample=sample)
    for c in classes:
        col.classes[c] += 1
        if len(col.samples.setdefault(c, [])) < 3:
            col.samples[c].append({"cell": cid})


def stage_enum(ctx):
    maxres = 4 if ctx.tier == "quick" else 6
    for res in range(0, maxres + 1):
        for cell in refids.children(0, res)[ctx.shard::ctx.nshards]:
            judge_cell(cell, ctx.col, "enum", enumerated=True)
    ctx.col.exhaustive[f"all cells res<={maxres} x 26 option sets"] = True


def judge(case, col):
    a5 = _a5()
    if "cell" in case:
        return judge_cell(int(case["cell"], 16), col, "hyp")
    cell = guarded(a5.lonlat_to_cell, (case["lon"], case["lat"]), case["res"], kind="lonlat_to_cell_raised", case=case)
    judge_cell(cell, col, "hyp")


def cases():
    by_id = gens.cell_ids(4, 29).map(lambda c: {"cell": hex(c)})
    special = st.one_of(gens.pts_antimeridian(), gens.pts_antimeridian(), gens.pts_polar(), gens.pts_pole_exact(), gens.pts_frame_nbhd(),
                        gens.pts_face_edge(), gens.pts_face_edge(), gens.pts_seam())
    by_loc = st.builds(lambda p, r: {"lon": p["lon"], "lat": p["lat"], "res": r}, special, gens.resolutions(2, 29))
    by_edge = gens.edge_scaled_cases(2, 29).map(lambda c: {"lon": c["lon"], "lat": c["lat"], "res": c["res"]})
    return st.one_of(by_id, by_loc, by_loc, by_edge, by_edge)


def stage_hyp(ctx):
    hyp_drive(ctx, cases(), judge, 120 if ctx.tier == "quick" else 2500)


def stage_boundary(ctx):
    """Cells containing the places where the library's own branches flip (lib/boundary.py)."""
    from lib import boundary
    anc = boundary.anchors(ctx, "cell", 100 if ctx.tier == "quick" else 500) + boundary.anchors(ctx, "proj", 100 if ctx.tier == "quick" else 500)
    if not anc:
        ctx.col.count("boundary_stage_skipped")
        return
    strat = st.builds(lambda p, r: {"lon": p["lon"], "lat": p["lat"], "res": r}, boundary.anchor_points(anc), gens.resolutions(2, 29))
    hyp_drive(ctx, strat, judge, 25 if ctx.tier == "quick" else 600)


def stage_all_segments(ctx):
    """`segments` is any integer >= 1 and the ring construction divides by it: every value 1..320 (quick) / 1..1300
    (thorough) on a handful of cells (a res-0 pentagon, a res-1 cell, an antimeridian cell, a polar cell, mid and deep
    cells chosen by the seed), open and closed rings alternating."""
    a5 = _a5()
    top = 320 if ctx.tier == "quick" else 1300
    cells = [refids.enc(0, ctx.seed % 12, 0, 0), refids.enc(1, (ctx.seed * 5 + 3) % 12, ctx.seed % 5, 0),
             a5.lonlat_to_cell((179.99, 10.0 + ctx.seed), 5), a5.lonlat_to_cell((20.0, 89.9), 4),
             refids.enc(9, (ctx.seed + 7) % 12, (ctx.seed + 1) % 5, (4 ** 8) // 3), refids.enc(29, (ctx.seed + 2) % 12, 3, (4 ** 28) // 7)]
    jobs = [(c, k) for c in cells for k in range(1, top + 1)]
    by_cell = {}
    for c, k in jobs[ctx.shard::ctx.nshards]:
        by_cell.setdefault(c, []).append(k)
    for c, ks in by_cell.items():
        judge_cell(c, ctx.col, "all_segments", enumerated=True, only_segments=ks)
    ctx.col.exhaustive[f"segments 1..{top} on 6 cells"] = True


def stage_polar_rosette(ctx):
    """All cells in the first few rings around both poles: points at 0.5..6 cell widths from the pole on 36 meridians,
    at 6 (quick) / 28 (thorough) resolutions; every cell found gets the full option grid."""
    a5 = _a5()
    ress = list(range(2, 30))
    if ctx.tier == "quick":
        ress = [2 + (ctx.seed + 5 * k) % 28 for k in range(6)]
    jobs = [(r, south) for r in sorted(set(ress)) for south in (False, True)]
    seen = set()
    for r, south in jobs[ctx.shard::ctx.nshards]:
        L = math.degrees(refgeo.cell_width(r))
        for j in (0.5, 1.0, 1.6, 2.3, 3.2, 4.4, 6.0):
            for m in range(36):
                lat = 90.0 - j * L
                p = (m * 10.0 + 3.0 * j, -lat if south else lat)
                cell = guarded(a5.lonlat_to_cell, p, r, kind="lonlat_to_cell_raised", case={"lon": p[0], "lat": p[1], "res": r})
                if cell in seen:
                    continue
                seen.add(cell)
                judge_cell(cell, ctx.col, "polar_rosette")


def plan(tier):
    return [Stage("enum", 16, stage_enum, cost=8), Stage("hyp", 16, stage_hyp, cost=6), Stage("boundary", 16, stage_boundary, cost=4),
            Stage("polar_rosette", 12, stage_polar_rosette, cost=5), Stage("all_segments", 16, stage_all_segments, cost=6)]


def replay(rec, col):
    case = rec["case"]
    if "opts" in case:
        seg = (case["opts"] or {}).get("segments")
        if isinstance(seg, int) and not isinstance(seg, bool) and seg >= 1:
            judge_cell(int(case["cell"], 16), col, "replay", enumerated=True, only_segments=[seg])
        case = {"cell": case["cell"]}
    judge(case, col)
