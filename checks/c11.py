"""C11 — quantisation error and cell shape are bounded at every level (DESIGN.md §6 C11)."""
from hypothesis import strategies as st

from lib import gens, refgeo, refids
from lib.runner import Stage, Violation, hyp_drive, guarded

RULE = ("(a) (point, res) as in C01 (uniform, polar caps, exact poles, frame points and neighbourhoods, antimeridian, wrapped "
        "longitudes), res 0..29: great-circle distance (authalic sphere, from differences) between p and "
        "cell_to_lonlat(lonlat_to_cell(p,r)) <= 1.0*L(r), L=sqrt(4pi/N(r)). (b) cells of res>=2: all cells of res 2..4 "
        "(quick) / 2..6 (thorough), sampled res 5..29 by id construction and by location (poles, frame points): the five "
        "corners of the segments=1 ring are pairwise >= 0.05 L apart and each within [0.35,1.0] L of the centre. "
        "Non-trivial: (a) colatitude<10deg or res>=22 or within 1e-3 rad of a frame point; (b) every cell. Distinct by input.")
ASSUMPTIONS = ["distances are measured on the authalic sphere (closed-form authalic latitude)"]
REQUIRED_CLASSES = {"pt:polar": ("pt", 0.1), "pt:res>=22": ("pt", 0.1)}


def _a5():
    import a5
    return a5


def judge_point(case, col):
    a5 = _a5()
    p = (case["lon"], case["lat"])
    res = case["res"]
    cell = guarded(a5.lonlat_to_cell, p, res, kind="lonlat_to_cell_raised", case=case)
    c = guarded(a5.cell_to_lonlat, cell, kind="cell_to_lonlat_raised", case=case)
    L = refgeo.cell_width(res)
    d = refgeo.gc_dist(p, c) / L
    col.measure("point_to_centre_cellwidths", d, case)
    if not d <= 1.0:
        raise Violation("quantisation_error_too_large", case, observed=f"{d:.4g} cell widths (cell {hex(cell)})", expected="<= 1.0")
    classes = ["pt", "pt:" + case.get("cls", "replay")]
    nt = False
    if 90.0 - abs(case["lat"]) < 10.0:
        classes.append("pt:polar")
        nt = True
    if res >= 22:
        classes.append("pt:res>=22")
        nt = True
    if refgeo.nearest_frame(p)[0] < 1e-3:
        classes.append("pt:near_frame")
        nt = True
    col.case({"lon": case["lon"], "lat": case["lat"], "res": res}, nontrivial=nt, classes=classes)


def judge_shape(cell, col, cls, enumerated=False):
    a5 = _a5()
    case = {"cell": hex(cell)}
    res = refids.res_of(cell)
    ring = guarded(a5.cell_to_boundary, cell, {"segments": 1, "closed_ring": False}, kind="cell_to_boundary_raised", case=case)
    c = guarded(a5.cell_to_lonlat, cell, kind="cell_to_lonlat_raised", case=case)
    if len(ring) != 5:
        raise Violation("not_five_corners", case, observed=len(ring), expected=5)
    L = refgeo.cell_width(res)
    for i in range(5):
        d = refgeo.gc_dist(ring[i], c) / L
        col.measure("corner_to_centre_max", d, case)
        col.measure("corner_to_centre_min", d, case, mode="min")
        if not (0.35 <= d <= 1.0):
            raise Violation("corner_distance_out_of_bounds", case, observed=f"corner {i}: {d:.4g} cell widths", expected="[0.35, 1.0]")
        for j in range(i + 1, 5):
            e = refgeo.gc_dist(ring[i], ring[j]) / L
            col.measure("corner_separation_min", e, case, mode="min")
            if not e >= 0.05:
                raise Violation("corners_not_distinct", case, observed=f"corners {i},{j}: {e:.3g} cell widths", expected=">= 0.05")
    classes = ["shape", "shape:" + cls]
    if abs(c[1]) > 80:
        classes.append("shape:polar")
    if res >= 22:
        classes.append("shape:res>=22")
    col.case(case, nontrivial=True, classes=classes, enumerated=enumerated)


def judge(case, col):
    if "cell" in case:
        return judge_shape(int(case["cell"], 16), col, "by_id")
    if case.get("shape"):
        a5 = _a5()
        cell = guarded(a5.lonlat_to_cell, (case["lon"], case["lat"]), case["res"], kind="lonlat_to_cell_raised", case=case)
        return judge_shape(cell, col, "by_location")
    return judge_point(case, col)


def stage_enum(ctx):
    maxres = 4 if ctx.tier == "quick" else 6
    for res in range(2, maxres + 1):
        for cell in refids.children(0, res)[ctx.shard::ctx.nshards]:
            judge_shape(cell, ctx.col, "enum", enumerated=True)
    ctx.col.exhaustive[f"shape of all cells res 2..{maxres}"] = True


def cases():
    pts = st.builds(lambda p, r: {"lon": p["lon"], "lat": p["lat"], "res": r, "cls": p["cls"]}, gens.points(), gens.resolutions(0, 29))
    by_id = gens.cell_ids(5, 29).map(lambda c: {"cell": hex(c)})
    by_loc = st.builds(lambda p, r: {"lon": p["lon"], "lat": p["lat"], "res": r, "cls": p["cls"], "shape": True},
                       gens.pts_base(), gens.resolutions(2, 29))
    by_edge = gens.edge_scaled_cases(2, 29).map(lambda c: dict(c, shape=True))
    return st.one_of(pts, pts, by_id, by_loc, gens.edge_scaled_cases(2, 29), by_edge)


def stage_hyp(ctx):
    hyp_drive(ctx, cases(), judge, 1500 if ctx.tier == "quick" else 40000)


def stage_boundary(ctx):
    """Cells containing the places where the library's own branches flip (lib/boundary.py)."""
    from lib import boundary
    anc = boundary.anchors(ctx, "cell", 100 if ctx.tier == "quick" else 500) + boundary.anchors(ctx, "proj", 100 if ctx.tier == "quick" else 500)
    if not anc:
        ctx.col.count("boundary_stage_skipped")
        return
    strat = st.builds(lambda p, r: {"lon": p["lon"], "lat": p["lat"], "res": r, "cls": p["cls"], "shape": r % 3 == 0}, boundary.anchor_points(anc), gens.resolutions(2, 29))
    hyp_drive(ctx, strat, judge, 300 if ctx.tier == "quick" else 10000)


def stage_polar_rosette(ctx):
    """Points on rings of 0.1 .. 8 cell widths around both poles, 180 meridians each, at the deepest resolutions (where a
    degree of longitude is shorter than a cell and every longitude-based step of the search degenerates)."""
    import math
    ress = [22, 25, 27, 28, 29] if ctx.tier == "quick" else list(range(12, 30))
    radii = [0.1 * j for j in range(1, 21)] + [2.0 + 0.5 * j for j in range(1, 13)]
    jobs = [(r, rad, south) for r in ress for rad in radii for south in (False, True)]
    phase = (ctx.seed % 20) * 0.1
    n = 0
    for r, rad, south in jobs[ctx.shard::ctx.nshards]:
        L = refgeo.cell_width(r)
        colat = math.degrees(rad * L)
        for i in range(180):
            lon = -180.0 + 2.0 * i + phase
            lat = 90.0 - colat
            judge_point({"lon": lon, "lat": -lat if south else lat, "res": r, "cls": "polar_rosette"}, ctx.col)
            n += 1
    ctx.col.count("polar_rosette_points", n)


def plan(tier):
    return [Stage("enum", 16, stage_enum, cost=6), Stage("hyp", 16, stage_hyp, cost=6), Stage("boundary", 16, stage_boundary, cost=4),
            Stage("polar_rosette", 16, stage_polar_rosette, cost=4)]


def replay(rec, col):
    judge(rec["case"], col)
