"""C07 — the id hierarchy is spatially coherent (DESIGN.md §6 C07)."""
import itertools

from hypothesis import strategies as st

from lib import gens, refgeo, refids
from lib.runner import Stage, Violation, hyp_drive, guarded
from checks.c01 import contains

RULE = ("(a) descent paths: cell c at res 0..28 (by id construction with structured S, and by location at poles/frame "
        "points), a path of child choices down to min(res+12,29) incl. the extreme paths (always first / always last / "
        "alternating); every descendant centre within 1.5*L(res c) of the centre of c. (b) points p and res r'<r: "
        "distance(p, centre(parent(cell(p,r),r'))) <= 2.5*L(r'). (c) exact nesting at the top: each res-1 centre lies inside its "
        "res-0 parent's ring, each res-0 ring's corners are dodecahedron vertices; all paths of length 4 under every cell of "
        "res<=2 (thorough); every one-/two-step prefix followed by a constant-child spine to depth 12 under every cell of res<=2/3. Non-trivial = path length>=3 with a non-zero child index, or r-r'>=2; distinct by (cell,path)/(p,r,r').")
ASSUMPTIONS = ["constants 1.5 and 2.5 are the property's; distances on the authalic sphere"]
REQUIRED_CLASSES = {"path": (None, 0.3), "point_ancestor": (None, 0.05)}


def _a5():
    import a5
    return a5


def judge_path(case, col, enumerated=False):
    a5 = _a5()
    c = int(case["cell"], 16)
    res = refids.res_of(c)
    L = refgeo.cell_width(res)
    centre = guarded(a5.cell_to_lonlat, c, kind="cell_to_lonlat_raised", case=case)
    cur = c
    worst = 0.0
    steps = 0
    nonzero = False
    for d in case["path"]:
        r = refids.res_of(cur)
        if r >= 29 or r >= res + 12:
            break
        kids = guarded(a5.cell_to_children, cur, r + 1, kind="cell_to_children_raised", case=case)
        idx = d % len(kids)
        nonzero = nonzero or idx != 0
        cur = kids[idx]
        steps += 1
        cc = guarded(a5.cell_to_lonlat, cur, kind="cell_to_lonlat_raised", case=case)
        dist = refgeo.gc_dist(centre, cc) / L
        worst = max(worst, dist)
        if not dist <= 1.5:
            raise Violation("descendant_far_from_ancestor", case, observed=f"{dist:.4g} widths of res {res} after {steps} steps (descendant {hex(cur)})", expected="<= 1.5")
    col.measure("descendant_drift_cellwidths", worst, case)
    col.case(case, nontrivial=steps >= 3 and nonzero, classes=("path", f"path_from_res{res:02d}"), enumerated=enumerated)


def judge_point(case, col):
    a5 = _a5()
    p = (case["lon"], case["lat"])
    r, rp = case["res"], case["res_parent"]
    cell = guarded(a5.lonlat_to_cell, p, r, kind="lonlat_to_cell_raised", case=case)
    anc = guarded(a5.cell_to_parent, cell, rp, kind="cell_to_parent_raised", case=case)
    ac = guarded(a5.cell_to_lonlat, anc, kind="cell_to_lonlat_raised", case=case)
    d = refgeo.gc_dist(p, ac) / refgeo.cell_width(rp)
    col.measure("point_to_ancestor_centre_cellwidths", d, case)
    if not d <= 2.5:
        raise Violation("ancestor_not_near_point", case, observed=f"{d:.4g} widths of res {rp} (ancestor {hex(anc)})", expected="<= 2.5")
    col.case({k: case[k] for k in ("lon", "lat", "res", "res_parent")}, nontrivial=r - rp >= 2,
             classes=("point_ancestor", "pa:" + case.get("cls", "replay")))


def judge(case, col):
    if "path" in case:
        return judge_path(case, col)
    return judge_point(case, col)


def stage_nesting(ctx):
    a5 = _a5()
    col = ctx.col
    vert_ll = [refgeo.frame_to_lonlat(v) for v in refgeo.FACE_VERTICES]
    for f in range(12):
        c0 = refids.enc(0, f)
        ring = a5.cell_to_boundary(c0, {"segments": 1, "closed_ring": False})
        case = {"cell": hex(c0), "path": []}
        if len(ring) != 5:
            raise Violation("face_ring_not_pentagon", case, observed=len(ring), expected=5)
        for v in ring:
            d = min(refgeo.gc_dist(v, w) for w in vert_ll)
            col.measure("face_corner_to_dodecahedron_vertex_rad", d, case)
            if d > 1e-9:
                raise Violation("face_corner_not_a_dodecahedron_vertex", case, observed=f"{d:.3g} rad off", expected="<= 1e-9")
        for q in range(5):
            c1 = refids.enc(1, f, q)
            cc = a5.cell_to_lonlat(c1)
            verdict, m = contains(cc, c0, 0)
            if verdict != "in":
                raise Violation("segment_centre_outside_face", {"cell": hex(c1), "path": []}, observed=f"{verdict} {m:.3g}", expected="inside parent face")
            # exact nesting: a segment is the triangle (face centre, two adjacent face corners)
            tri = a5.cell_to_boundary(c1, {"segments": 1, "closed_ring": False})
            fc = a5.cell_to_lonlat(c0)
            allowed = list(ring) + [fc]
            if len(tri) != 3:
                raise Violation("segment_ring_not_triangle", {"cell": hex(c1), "path": []}, observed=len(tri), expected=3)
            for v in tri:
                d = min(refgeo.gc_dist(v, w) for w in allowed)
                col.measure("segment_corner_to_face_corner_or_centre_rad", d, {"cell": hex(c1)})
                if d > 1e-9:
                    raise Violation("segment_does_not_nest_in_face", {"cell": hex(c1), "path": []}, observed=f"corner {d:.3g} rad from every face corner and the face centre", expected="<= 1e-9")
            col.bulk(1, 1, cls="nesting", sample={"cell": hex(c1)})
    col.exhaustive["12 faces x 5 segments nesting"] = True


def stage_allpaths(ctx):
    cells = []
    for r in range(0, 3):
        cells += refids.children(0, r)
    depth = 4 if ctx.tier == "thorough" else 3
    for c in cells[ctx.shard::ctx.nshards]:
        res = refids.res_of(c)
        # every path of `depth` steps; children counts 5 (from res 0) then 4
        counts = [5 if res + i == 0 else 4 for i in range(depth)]
        for path in itertools.product(*[range(n) for n in counts]):
            judge_path({"cell": hex(c), "path": list(path)}, ctx.col, enumerated=True)
    ctx.col.exhaustive[f"all descent paths of length {depth} under every cell of res<=2"] = True
    # prefix + spine: every one- and two-step prefix followed by a constant child index down 12 levels (the curve's
    # orientation rules act on the first steps, the drift accumulates along the spine), under every cell of res <= 2
    # (quick) / <= 3 (thorough)
    if ctx.tier == "thorough":
        cells = cells + refids.children(0, 3)
    for c in cells[ctx.shard::ctx.nshards]:
        for plen in (1, 2):
            for prefix in itertools.product(range(5 if refids.res_of(c) == 0 else 4), *([range(4)] * (plen - 1))):
                for spine in range(4):
                    judge_path({"cell": hex(c), "path": list(prefix) + [spine] * (12 - plen)}, ctx.col, enumerated=True)
    ctx.col.exhaustive["prefix(<=2)+spine paths of length 12 under every cell of res<=2"] = True


def cases():
    path = st.lists(st.integers(0, 19), min_size=12, max_size=12)
    extreme = st.sampled_from([[0] * 12, [3] * 12, [0, 3] * 6, [3, 0] * 6, [1] * 12, [2] * 12, [4, 3] * 6])
    by_id = st.builds(lambda t, p: {"cell": hex(refids.enc(*t)), "path": p}, gens.cell_tuple(0, 28), st.one_of(path, path, extreme))
    pts = st.builds(lambda p, r, u: {"lon": p["lon"], "lat": p["lat"], "res": r, "res_parent": int(u * r) if r else 0, "cls": p["cls"]},
                    gens.points(), gens.resolutions(1, 29), st.floats(0, 0.999, allow_nan=False))
    return st.one_of(by_id, pts)


def stage_hyp(ctx):
    hyp_drive(ctx, cases(), judge, 700 if ctx.tier == "quick" else 20000)


def stage_boundary(ctx):
    """Cells containing the places where the library's own branches / discrete decisions flip (lib/boundary.py), at
    res 20..28, each descended along every path of two levels."""
    from lib import boundary
    a5 = _a5()
    anc = boundary.anchors(ctx, "proj", 150 if ctx.tier == "quick" else 800) + boundary.anchors(ctx, "cell", 60 if ctx.tier == "quick" else 300, per_type=2)
    if not anc:
        ctx.col.count("boundary_stage_skipped")
        return
    n = 0
    budget = 60 if ctx.tier == "quick" else 1500
    # round-robin over boundary types (the list comes grouped by type)
    rank = {}
    order = []
    for a in anc:
        rank[a["type"]] = rank.get(a["type"], 0) + 1
        order.append((rank[a["type"]], a["type"], len(order)))
    anc = [anc[i] for _, _, i in sorted(order)]
    for i, a in enumerate(anc):
        if n >= budget:
            break
        for res in ((28, 27) if i % 2 else (26, 22)):
            c = guarded(a5.lonlat_to_cell, (a["lon"], a["lat"]), res, kind="lonlat_to_cell_raised", case={"lon": a["lon"], "lat": a["lat"], "res": res})
            depth = min(2, 29 - res)
            for path in itertools.product(range(4), repeat=depth):
                judge_path({"cell": hex(c), "path": list(path)}, ctx.col)
            n += 1


def plan(tier):
    return [Stage("nesting", 1, stage_nesting), Stage("allpaths", 16, stage_allpaths, cost=8), Stage("hyp", 16, stage_hyp, cost=6), Stage("boundary", 16, stage_boundary, cost=5)]


def replay(rec, col):
    judge(rec["case"], col)
