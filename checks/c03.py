"""C03 — cells of one resolution tile the globe: no gaps, no overlaps (DESIGN.md §6 C03)."""
import math

from hypothesis import strategies as st

from lib import gens, refgeo, refids
from lib.runner import Stage, Violation, hyp_drive, guarded
from checks.c01 import contains

RULE = ("(1) manifold certificate, complete per level for res 0..5 (quick) / 0..7 (thorough): all segments=1 rings; vertices "
        "clustered on a 3-D hash grid (coincide within 1e-6 L); every directed edge occurs once and its reverse once; "
        "V-E+F=2; every ring simple and counter-clockwise; signed areas sum to 4pi (1e-9). (2) edge-neighbour check for cells "
        "of res 2..29 (by id construction with structured S; by location at poles, frame points/neighbourhoods, antimeridian): "
        "for each of the 5 edges, the point 5% beyond the edge midpoint (3-D construction) belongs, by lonlat_to_cell, to a "
        "different cell whose segments=4 ring contains the same edge reversed, end points and the three interior points "
        "within 1e-4 L; points 0.4% beyond the edge at 3/12/88/97% along it go to that neighbour (or a cell containing them); the cell's centre is not inside that neighbour. One case = one cell (5 edges). Non-trivial = an edge "
        "(3) corner sweep: points 0.1 % / 0.2 % inside each vertex of every cell of res 8 (thorough; every 8th cell quick) come back in a cell containing them. Non-trivial = an edge is shared across a face or segment boundary, or the cell is within 3 L of a pole/frame point; distinct by cell.")
ASSUMPTIONS = ["for res>=8 the partition is sampled, not certified", "vertex coincidence tolerance 1e-6 L (measured 1e-12 L), edge point tolerance 1e-4 L + float floor"]
REQUIRED_CLASSES = {"edge_across_face": ("hyp", 0.05), "near_frame_or_pole": ("hyp", 0.1)}


def _a5():
    import a5
    return a5


class Grid3:
    """Clusters unit vectors that coincide within tol."""

    def __init__(self, cell, tol):
        self.g = cell
        self.tol = tol
        self.grid = {}
        self.pts = []
        self.worst = 0.0

    def get(self, v):
        g = self.g
        k = (math.floor(v[0] / g), math.floor(v[1] / g), math.floor(v[2] / g))
        best = None
        for dx in (0, -1, 1):
            for dy in (0, -1, 1):
                for dz in (0, -1, 1):
                    for i in self.grid.get((k[0] + dx, k[1] + dy, k[2] + dz), ()):
                        p = self.pts[i]
                        d = math.sqrt((p[0] - v[0]) ** 2 + (p[1] - v[1]) ** 2 + (p[2] - v[2]) ** 2)
                        if d <= g and (best is None or d < best[0]):
                            best = (d, i)
            if best is not None and dx == 0:
                break
        if best is not None:
            if best[0] > self.worst:
                self.worst = best[0]
            if best[0] > self.tol:
                return -1 - best[1]          # near, but not coincident
            return best[1]
        self.pts.append(v)
        self.grid.setdefault(k, []).append(len(self.pts) - 1)
        return len(self.pts) - 1


def certificate(res, col):
    a5 = _a5()
    L = refgeo.cell_width(res)
    cells = refids.children(0, res)
    grid = Grid3(1e-2 * L, 1e-6 * L)
    edges = {}
    total = 0.0
    for cell in cells:
        case = {"cell": hex(cell)}
        ring = guarded(a5.cell_to_boundary, cell, {"segments": 1, "closed_ring": False}, kind="cell_to_boundary_raised", case=case)
        vs = [refgeo.vec(p) for p in ring]
        ids = []
        for v in vs:
            i = grid.get(v)
            if i < 0:
                raise Violation("vertices_nearly_but_not_coincident", case, observed=f"{grid.worst / L:.3g} cell widths apart", expected="<= 1e-6")
            ids.append(i)
        if len(set(ids)) != len(ids):
            raise Violation("degenerate_ring", case, observed=ids, expected="distinct vertices")
        a = refgeo.area_3d_vecs(vs)
        if not a > 0:
            raise Violation("ring_not_counter_clockwise", case, observed=a, expected="> 0")
        # convex-ish simple ring: every consecutive triple turns left seen from outside (pentagon / triangle)
        n = len(vs)
        total += a
        for i in range(n):
            e = (ids[i], ids[(i + 1) % n])
            if e in edges:
                raise Violation("directed_edge_used_twice", case, observed=f"also in {hex(edges[e])}", expected="each directed edge once (no overlap)")
            edges[e] = cell
    unmatched = [e for e in edges if (e[1], e[0]) not in edges]
    if unmatched:
        e = unmatched[0]
        raise Violation("edge_without_reverse", {"cell": hex(edges[e])}, observed=f"{len(unmatched)} unmatched edges at res {res}", expected="every edge shared with exactly one other cell")
    V, E, F = len(grid.pts), len(edges) // 2, len(cells)
    if V - E + F != 2:
        raise Violation("euler_characteristic", {"res": res}, observed=V - E + F, expected=2)
    rel = abs(total / (4 * math.pi) - 1)
    col.measure("area_sum_rel_err", rel, {"res": res})
    col.measure("vertex_snap_cellwidths", grid.worst / L, {"res": res})
    if rel > 1e-9:
        raise Violation("areas_do_not_sum_to_sphere", {"res": res}, observed=total, expected=4 * math.pi)
    col.bulk(F, F, cls=f"certificate_res{res}", sample={"cell": hex(cells[len(cells) // 3])})
    col.notes.append(f"res {res}: V={V} E={E} F={F}")


def stage_certificate(ctx):
    maxres = 5 if ctx.tier == "quick" else 7
    levels = list(range(maxres, -1, -1))[ctx.shard::ctx.nshards]
    for res in levels:
        certificate(res, ctx.col)
        ctx.col.exhaustive[f"manifold certificate res {res}"] = True


def _locate(ring, p, L, what, case):
    best = min(range(len(ring)), key=lambda i: refgeo.gc_dist(ring[i], p))
    return best, refgeo.gc_dist(ring[best], p) / L


def judge_cell(cell, col, cls):
    a5 = _a5()
    case = {"cell": hex(cell)}
    res = refids.res_of(cell)
    L = refgeo.cell_width(res)
    tol = 1e-4 + 1e-14 / L
    centre = guarded(a5.cell_to_lonlat, cell, kind="cell_to_lonlat_raised", case=case)
    ring4 = guarded(a5.cell_to_boundary, cell, {"segments": 4, "closed_ring": False}, kind="cell_to_boundary_raised", case=case)
    corners = guarded(a5.cell_to_boundary, cell, {"segments": 1, "closed_ring": False}, kind="cell_to_boundary_raised", case=case)
    n = len(ring4)
    if n != 20 or len(corners) != 5:
        raise Violation("vertex_count", case, observed=(n, len(corners)), expected=(20, 5))
    ring32 = guarded(a5.cell_to_boundary, cell, {"segments": 32, "closed_ring": False}, kind="cell_to_boundary_raised", case=case)
    i32, _d = _locate(ring32, corners[0], L, "corner", case)
    i0, d0 = _locate(ring4, corners[0], L, "corner", case)
    if d0 > 1e-7:
        raise Violation("corner_not_in_fine_ring", case, observed=d0, expected="<= 1e-7")
    me = refids.dec(cell)
    across_face = across_seg = False
    for e in range(5):
        pts = [ring4[(i0 + 4 * e + j) % n] for j in range(5)]        # corner, 3 interior points, next corner
        mid = pts[2]
        beyond = refgeo.toward(centre, mid, 1.05)
        ecase = {"cell": hex(cell), "edge": e}
        nb = guarded(a5.lonlat_to_cell, beyond, res, kind="lonlat_to_cell_raised", case=ecase)
        if nb == cell:
            raise Violation("point_beyond_edge_in_same_cell", ecase, observed=hex(nb), expected="a neighbouring cell")
        nring = guarded(a5.cell_to_boundary, nb, {"segments": 4, "closed_ring": False}, kind="cell_to_boundary_raised", case=ecase)
        m = len(nring)
        j0, dj = _locate(nring, pts[4], L, "edge end", ecase)
        col.measure("shared_edge_point_gap_cellwidths", dj, ecase)
        if dj > tol:
            raise Violation("edge_not_shared_with_neighbour", ecase, observed=f"end point {dj:.3g} cell widths from neighbour {hex(nb)}'s nearest vertex", expected=f"<= {tol:.2g}")
        # walking the neighbour's ring forward from there must retrace the edge backwards
        for j in range(1, 5):
            q = nring[(j0 + j) % m]
            d = refgeo.gc_dist(q, pts[4 - j]) / L
            col.measure("shared_edge_point_gap_cellwidths", d, ecase)
            if d > tol:
                raise Violation("edge_not_shared_with_neighbour", ecase, observed=f"point {j} of the reversed edge is {d:.3g} cell widths off in neighbour {hex(nb)}", expected=f"<= {tol:.2g}")
        verdict, mm = contains(centre, nb, res)
        if verdict != "out":
            raise Violation("cells_overlap", ecase, observed=f"centre of the cell is {verdict} neighbour {hex(nb)}", expected="outside")
        # points just beyond the edge near its ends belong to the same neighbour (or to a cell that contains them)
        for s in (1, 4, 28, 31):
            q = ring32[(i32 + 32 * e + s) % len(ring32)]
            dist = refgeo.gc_dist(q, centre)
            probe = refgeo.toward(centre, q, 1 + 0.004 * L / dist)
            got = guarded(a5.lonlat_to_cell, probe, res, kind="lonlat_to_cell_raised", case=ecase)
            col.count("along_edge_probes")
            if got == nb:
                continue
            pcase = {"cell": hex(cell), "edge": e, "probe": [probe[0], probe[1]]}
            if got == cell:
                raise Violation("point_beyond_edge_in_same_cell", pcase, observed=hex(got), expected=f"neighbour {hex(nb)}")
            v2, m2 = contains(probe, got, res)
            if v2 == "out":
                raise Violation("point_beyond_edge_given_to_cell_not_containing_it", pcase, observed=f"{hex(got)} (outside by {-m2:.3g} cell widths)", expected=f"neighbour {hex(nb)}")
        nd = refids.dec(nb)
        if nd[1] != me[1]:
            across_face = True
        elif nd[2] != me[2]:
            across_seg = True
    classes = ["hyp", cls, f"res{res:02d}"]
    nt = False
    if across_face:
        classes.append("edge_across_face")
        nt = True
    if across_seg:
        classes.append("edge_across_segment")
        nt = True
    if refgeo.nearest_frame(centre)[0] < 3 * L or (90 - abs(centre[1])) * math.pi / 180 < 3 * L:
        classes.append("near_frame_or_pole")
        nt = True
    col.case(case, nontrivial=nt, classes=classes)


def judge(case, col):
    a5 = _a5()
    if "res" in case and "cell" not in case and "lon" not in case:
        return certificate(case["res"], col)
    if "cell" in case:
        return judge_cell(int(case["cell"], 16), col, "by_id")
    cell = guarded(a5.lonlat_to_cell, (case["lon"], case["lat"]), case["res"], kind="lonlat_to_cell_raised", case=case)
    judge_cell(cell, col, "by_location")


def cases():
    by_id = gens.cell_ids(2, 29).map(lambda c: {"cell": hex(c)})
    by_loc = st.builds(lambda p, r: {"lon": p["lon"], "lat": p["lat"], "res": r}, gens.pts_base(), gens.resolutions(2, 29))
    by_edge = gens.edge_scaled_cases(2, 29).map(lambda c: {"lon": c["lon"], "lat": c["lat"], "res": c["res"]})
    return st.one_of(by_id, by_loc, by_loc, by_edge)


def stage_hyp(ctx):
    hyp_drive(ctx, cases(), judge, 250 if ctx.tier == "quick" else 4500)


def stage_boundary(ctx):
    """Cells containing the places where the library's own branches flip (lib/boundary.py)."""
    from lib import boundary
    anc = boundary.anchors(ctx, "cell", 100 if ctx.tier == "quick" else 500) + boundary.anchors(ctx, "proj", 100 if ctx.tier == "quick" else 500)
    if not anc:
        ctx.col.count("boundary_stage_skipped")
        return
    strat = st.builds(lambda p, r: {"lon": p["lon"], "lat": p["lat"], "res": r}, boundary.anchor_points(anc), gens.resolutions(2, 29))
    hyp_drive(ctx, strat, judge, 60 if ctx.tier == "quick" else 1200)


SWEEP_RES = 8


def stage_corner_sweep(ctx):
    """The neighbourhood search of lonlat_to_cell has its hardest inputs in the extreme corners of cells, and how hard a
    corner is depends on where the cell lies on its face (lattice orientation against the fixed search directions). From
    resolution 7 on the construction is scale invariant, so one resolution's cells cover every position on every face:
    all 983 040 cells of resolution 8 (thorough; every 8th, offset by the seed, quick), each with points 0.1 % and 0.2 %
    of the vertex-centre distance inside each of its 5 vertices. The point must come back in a cell that contains it."""
    a5 = _a5()
    res = SWEEP_RES
    per = 4 ** (res - 1)
    stride = 8 if ctx.tier == "quick" else 1
    fracs = (0.002,) if ctx.tier == "quick" else (0.001, 0.002)
    off = ctx.seed % stride
    n = probes = other = 0
    for idx in range(ctx.shard + ctx.nshards * off, 60 * per, ctx.nshards * stride):
        o, rem = divmod(idx, 5 * per)
        seg, S = divmod(rem, per)
        cell = refids.enc(res, o, seg, S)
        case = {"cell": hex(cell), "corner_sweep": True}
        centre = guarded(a5.cell_to_lonlat, cell, kind="cell_to_lonlat_raised", case=case)
        ring = guarded(a5.cell_to_boundary, cell, {"segments": 1, "closed_ring": False}, kind="cell_to_boundary_raised", case=case)
        for vi, q in enumerate(ring):
            for f in fracs:
                pt = refgeo.toward(q, centre, f)
                got = guarded(a5.lonlat_to_cell, pt, res, kind="lonlat_to_cell_raised", case=case)
                probes += 1
                if got != cell:
                    verdict, m = contains(pt, got, res)
                    if verdict == "out":
                        raise Violation("corner_point_given_to_cell_not_containing_it", {"cell": hex(cell), "corner_sweep": True, "vertex": vi, "f": f},
                                        observed=f"{hex(got)} (outside by {-m:.3g} cell widths)", expected=f"{hex(cell)} or another cell containing the point")
                    other += 1
        n += 1
    ctx.col.bulk(n, n, cls="corner_sweep", sample={"cell": hex(cell), "corner_sweep": True})
    ctx.col.count("corner_sweep_probes", probes)
    ctx.col.count("corner_sweep_other_cell_also_contains", other)
    if stride == 1:
        ctx.col.exhaustive[f"corner tips of all cells of res {res}"] = True


def judge_corner(case, col):
    a5 = _a5()
    cell = int(case["cell"], 16)
    res = refids.res_of(cell)
    centre = guarded(a5.cell_to_lonlat, cell, kind="cell_to_lonlat_raised", case=case)
    ring = guarded(a5.cell_to_boundary, cell, {"segments": 1, "closed_ring": False}, kind="cell_to_boundary_raised", case=case)
    vs = [case["vertex"]] if "vertex" in case else range(len(ring))
    for vi in vs:
        for f in ([case["f"]] if "f" in case else (0.001, 0.002)):
            pt = refgeo.toward(ring[vi], centre, f)
            got = guarded(a5.lonlat_to_cell, pt, res, kind="lonlat_to_cell_raised", case=case)
            if got != cell:
                verdict, m = contains(pt, got, res)
                if verdict == "out":
                    raise Violation("corner_point_given_to_cell_not_containing_it", case, observed=f"{hex(got)} (outside by {-m:.3g} cell widths)",
                                    expected=f"{hex(cell)} or another cell containing the point")
    col.case(case, nontrivial=True, classes=["corner_sweep"])


def plan(tier):
    return [Stage("certificate", 8, stage_certificate, cost=10), Stage("hyp", 16, stage_hyp, cost=6), Stage("boundary", 16, stage_boundary, cost=4),
            Stage("corner_sweep", 16, stage_corner_sweep, cost=8)]


def replay(rec, col):
    case = dict(rec["case"])
    if case.get("corner_sweep"):
        return judge_corner(case, col)
    case.pop("edge", None)
    judge(case, col)
