"""C05 — cell ids are a faithful 64-bit code (see DESIGN.md §6 C05)."""
from hypothesis import strategies as st

from lib import refids
from lib.runner import Stage, Violation, hyp_drive, HarnessError
from lib import gens

RULE = ("cells (face, segment, S, res): complete enumeration for res<=7 (quick) / <=9 (thorough), Hypothesis with "
        "bit-pattern-directed S for res 2..29, raw 64-bit values (valid ones must re-encode to themselves), "
        "out-of-range S (must raise). Oracle: independent layout model refids.enc/dec + round-trips. "
        "Non-trivial = res>=2 and S!=0 (the repository suite only round-trips S=0 per level); distinct by "
        "(face,segment,S,res) / raw value. res 30 excluded by construction (known finding KF1), probed separately.")
ASSUMPTIONS = ["the documented id layout (pinned by the repository's mask table and hex fixtures) is the intended one",
               "S is sampled, not symbolic: a defect confined to one S value among 4^28 is out of reach"]


def _lib():
    from a5.core import serialization as ser
    from a5.core.origin import origins
    from a5.core.utils import A5Cell
    import a5
    return ser, origins, A5Cell, a5


def _selfcheck():
    ser, origins, A5Cell, a5 = _lib()
    refids.self_test()
    if [o.first_quintant for o in origins] != refids.FIRST_QUINTANT or [o.id for o in origins] != list(range(12)):
        raise HarnessError("refids.FIRST_QUINTANT disagrees with a5.core.origin.origins")


def judge_cell(case, col, enumerated=False, record=True):
    ser, origins, A5Cell, a5 = _lib()
    res, face, seg, S = case["res"], case["face"], case["seg"], case["S"]
    if res == 30:
        return judge_res30(case, col)
    cell = A5Cell(origin=origins[face], segment=seg, S=S, resolution=res)
    try:
        cid = ser.serialize(cell)
    except Exception as e:  # noqa: BLE001
        raise Violation("encode_raises", case, observed=f"{type(e).__name__}: {e}", expected="an id")
    q = refids.seg_to_q(face, seg) if res >= 1 else 0
    exp = refids.enc(res, face, q, S)
    if not isinstance(cid, int) or not (1 <= cid < 1 << 64):
        raise Violation("id_out_of_range", case, observed=cid, expected="1 <= id < 2^64")
    if cid != exp:
        raise Violation("layout_mismatch", case, observed=hex(cid), expected=hex(exp))
    r2 = a5.get_resolution(cid)
    if r2 != res:
        raise Violation("get_resolution_mismatch", case, observed=r2, expected=res)
    d = ser.deserialize(cid)
    got = (d["resolution"], d["origin"].id, d["segment"] if res >= 1 else 0, d["S"])
    want = (res, face, seg if res >= 1 else 0, S)
    if got != want:
        raise Violation("decode_mismatch", case, observed=got, expected=want)
    back = ser.serialize(d)
    if back != cid:
        raise Violation("reencode_mismatch", case, observed=hex(back), expected=hex(cid))
    if case.get("scribble", True):
        # a caller editing the decoded cell must not change what the id decodes to afterwards
        d["S"] = d["S"] + 1
        d["segment"] = (d["segment"] + 1) % 5
        d["resolution"] = max(0, res - 1)
        d2 = ser.deserialize(cid)
        got2 = (d2["resolution"], d2["origin"].id, d2["segment"] if res >= 1 else 0, d2["S"])
        if got2 != want or a5.get_resolution(cid) != res:
            raise Violation("decode_depends_on_caller_mutation", case, observed=got2, expected=want)
    if record:
        col.case(case, nontrivial=(res >= 2 and S != 0), classes=(f"cell_res{res:02d}",), enumerated=enumerated)
    return cid


def judge_res30(case, col):
    """res 30 = MAX_RESOLUTION. Known finding KF1: encode raises. Anything else wrong is a violation."""
    ser, origins, A5Cell, a5 = _lib()
    face, seg, S = case["face"], case["seg"], case["S"]
    cell = A5Cell(origin=origins[face], segment=seg, S=S, resolution=30)
    try:
        cid = ser.serialize(cell)
    except Exception:  # noqa: BLE001
        col.known("KF1")
        return None
    # encode returned something: then it must be a faithful code
    if not isinstance(cid, int) or not (1 <= cid < 1 << 64):
        raise Violation("res30_id_out_of_range", case, observed=cid, expected="1 <= id < 2^64")
    if a5.get_resolution(cid) != 30:
        raise Violation("res30_silent_collision", case, observed=(hex(cid), a5.get_resolution(cid)),
                        expected="an id that decodes to resolution 30")
    d = ser.deserialize(cid)
    got = (d["resolution"], d["origin"].id, d["segment"], d["S"])
    if got != (30, face, seg, S):
        raise Violation("res30_decode_mismatch", case, observed=got, expected=(30, face, seg, S))
    col.case(case, nontrivial=S != 0, classes=("cell_res30",))
    return cid


def judge_raw(case, col):
    ser, origins, A5Cell, a5 = _lib()
    x = case["id"]
    d = refids.dec(x)
    if d is None or d[0] == -1:
        # not a valid id (or the world cell): the property makes no claim; the library must not be
        # *required* to reject it. Only count it.
        col.case(case, nontrivial=False, classes=("raw_invalid",))
        return
    res, face, q, S = d
    try:
        r2 = a5.get_resolution(x)
        cell = ser.deserialize(x)
        back = ser.serialize(cell)
    except Exception as e:  # noqa: BLE001
        raise Violation("valid_id_rejected", case, observed=f"{type(e).__name__}: {e}", expected="decodes")
    if r2 != res:
        raise Violation("get_resolution_mismatch", case, observed=r2, expected=res)
    got = (cell["resolution"], cell["origin"].id, refids.seg_to_q(cell["origin"].id, cell["segment"]) if res >= 1 else 0, cell["S"])
    if got != (res, face, q, S):
        raise Violation("decode_mismatch", case, observed=got, expected=(res, face, q, S))
    if back != x:
        raise Violation("reencode_mismatch", case, observed=hex(back), expected=hex(x))
    col.case(case, nontrivial=(res >= 2 and S != 0), classes=("raw_valid",))


def judge_oob(case, col):
    """S outside [0, 4^h): encode must not silently return an id."""
    ser, origins, A5Cell, a5 = _lib()
    res, face, seg, S = case["res"], case["face"], case["seg"], case["S"]
    cell = A5Cell(origin=origins[face], segment=seg, S=S, resolution=res)
    try:
        cid = ser.serialize(cell)
    except Exception:  # noqa: BLE001
        col.case(case, nontrivial=True, classes=("oob_rejected",))
        return
    raise Violation("oversized_S_accepted", case, observed=hex(cid), expected="raises")


def judge_level(case, col):
    ser, origins, A5Cell, a5 = _lib()
    res = case["res"]
    got = a5.cell_to_children(0, res)
    want = a5.get_num_cells(res)
    if len(got) != want or len(set(got)) != want or want != refids.ncells(res):
        raise Violation("level_count", case, observed=(len(got), len(set(got))), expected=want)
    ref = set(refids.children(0, res))
    if set(got) != ref:
        diff = list(set(got) ^ ref)[:3]
        raise Violation("level_set", case, observed=[hex(x) for x in diff], expected="reference id set")
    col.bulk(1, 1, cls="level_set", sample=case)


def judge(case, col):
    t = case["t"]
    if t == "level":
        return judge_level(case, col)
    if t == "cell":
        return judge_cell(case, col)
    if t == "raw":
        return judge_raw(case, col)
    if t == "oob":
        return judge_oob(case, col)
    raise HarnessError(f"unknown case type {t}")


# ------------------------------------------------------------------------------------------------

def stage_enum(ctx):
    _selfcheck()
    ser, origins, A5Cell, a5 = _lib()
    maxres = 7 if ctx.tier == "quick" else 9
    col = ctx.col
    units = [(f, q) for f in range(12) for q in range(5)]
    mine = units[ctx.shard::ctx.nshards]
    for res in range(0, maxres + 1):
        n = 0
        nt = 0
        seen = set()
        for (f, q) in mine:
            if res == 0 and q:
                continue
            seg = refids.q_to_seg(f, q)
            for S in range(4 ** (res - 1) if res >= 2 else 1):
                case = {"t": "cell", "res": res, "face": f, "seg": seg, "S": S, "scribble": S % 16 == 5 or res < 4}
                cid = judge_cell(case, col, record=False)
                seen.add(cid)
                n += 1
                if res >= 2 and S:
                    nt += 1
        if len(seen) != n:
            raise Violation("ids_not_unique", {"t": "level", "res": res}, observed=len(seen), expected=n)
        col.bulk(n, nt, cls=f"enum_res{res:02d}", sample={"t": "cell", "res": res, "face": mine[0][0], "seg": 0, "S": n // 3})
    col.exhaustive[f"all (face,segment,S) for res<={maxres}"] = True


def stage_levels(ctx):
    """ids enumerated at resolution r (expanding the world cell) are exactly get_num_cells(r), and are
    exactly the reference set."""
    _selfcheck()
    ser, origins, A5Cell, a5 = _lib()
    maxres = 6 if ctx.tier == "quick" else 8
    levels = list(range(0, maxres + 1))[ctx.shard::ctx.nshards]
    for res in levels:
        judge_level({"t": "level", "res": res}, ctx.col)
    ctx.col.exhaustive[f"cell_to_children(world, r) for r<={maxres}"] = True


def _cells_strategy():
    return st.builds(lambda r, f, s, S: {"t": "cell", "res": r, "face": f, "seg": s, "S": S % (4 ** (r - 1)) if r >= 2 else 0},
                     gens.resolutions(lo=0, hi=29), st.integers(0, 11), st.integers(0, 4), gens.hilbert_S_any())


def _cells_by_res():
    # draw res first, then an S pattern sized for that res
    return gens.resolutions(lo=0, hi=29).flatmap(
        lambda r: st.builds(lambda f, s, S: {"t": "cell", "res": r, "face": f, "seg": s, "S": S},
                            st.integers(0, 11), st.integers(0, 4), gens.hilbert_S(max(r - 1, 0))))


def _raw_strategy():
    valid = _cells_by_res().map(lambda c: refids.enc(c["res"], c["face"], refids.seg_to_q(c["face"], c["seg"]) if c["res"] >= 1 else 0, c["S"]))
    flipped = st.builds(lambda x, b: x ^ (1 << b), valid, st.integers(0, 63))
    flipped2 = st.builds(lambda x, b, c: x ^ (1 << b) ^ (1 << c), valid, st.integers(0, 63), st.integers(0, 63))
    return st.one_of(st.integers(0, (1 << 64) - 1), valid, flipped, flipped2,
                     st.builds(lambda t, low: (t << 58) | low, st.integers(0, 63), st.integers(0, (1 << 58) - 1))
                     ).map(lambda x: {"t": "raw", "id": x})


def _oob_strategy():
    def mk(r, f, s, k, extra):
        h = r - 1
        lim = 4 ** h
        S = {0: lim, 1: lim + extra % lim, 2: lim * 2, 3: lim * 4 - 1, 4: (1 << 60) + extra, 5: lim + 1,
             6: (1 << (2 * h + extra % 150)) + (extra % lim if extra % 3 else 0),       # one high bit far above the field
             7: (extra % lim) | (1 << (2 * h + 64 + extra % 70))}[k]
        return {"t": "oob", "res": r, "face": f, "seg": s, "S": S}
    return st.builds(mk, st.integers(2, 29), st.integers(0, 11), st.integers(0, 4), st.integers(0, 7), st.integers(0, 1 << 59))


def stage_hyp(ctx):
    _selfcheck()
    n = 2500 if ctx.tier == "quick" else 40000
    strat = st.one_of(_cells_by_res(), _cells_by_res(), _raw_strategy(), _oob_strategy())
    hyp_drive(ctx, strat, judge, n)


def stage_res30(ctx):
    for face in (0, 5, 11):
        for seg in (0, 4):
            for S in (0, 1, 4 ** 29 - 1, 4 ** 28):
                ctx.col.count("res30_probes")
                judge_res30({"t": "cell", "res": 30, "face": face, "seg": seg, "S": S}, ctx.col)
    # so that the stage also contributes ordinary cases
    ctx.col.notes.append("res 30 excluded from all generators by construction; probed with 24 (face,segment,S)")


def stage_fuzz(ctx):
    from lib import fuzz
    fuzz.run(ctx, "C05", decode_case, judge, runs=200000 if ctx.tier == "thorough" else 20000)


def decode_case(fdp):
    """bytes -> case, for the coverage-guided stage."""
    t = fdp.ConsumeIntInRange(0, 2)
    if t == 0:
        r = fdp.ConsumeIntInRange(0, 29)
        S = fdp.ConsumeIntInRange(0, max(0, 4 ** (r - 1) - 1)) if r >= 2 else 0
        return {"t": "cell", "res": r, "face": fdp.ConsumeIntInRange(0, 11), "seg": fdp.ConsumeIntInRange(0, 4), "S": S}
    if t == 1:
        return {"t": "raw", "id": fdp.ConsumeIntInRange(0, (1 << 64) - 1)}
    r = fdp.ConsumeIntInRange(2, 29)
    return {"t": "oob", "res": r, "face": fdp.ConsumeIntInRange(0, 11), "seg": fdp.ConsumeIntInRange(0, 4),
            "S": fdp.ConsumeIntInRange(4 ** (r - 1), 1 << 61)}


def plan(tier):
    stages = [
        Stage("enum", 16, stage_enum, cost=10, note="complete enumeration of (face,segment,S)"),
        Stage("levels", 4, stage_levels, cost=5),
        Stage("hyp", 16, stage_hyp, cost=3),
        Stage("res30", 1, stage_res30, cost=0.1),
    ]
    if tier == "thorough":
        stages.append(Stage("fuzz", 4, stage_fuzz, cost=8, note="atheris (libFuzzer) on the same judge"))
    return stages


def replay(rec, col):
    judge(rec["case"], col)


def probe_known(kf):
    ser, origins, A5Cell, a5 = _lib()
    if kf["id"] == "KF1":
        try:
            ser.serialize(A5Cell(origin=origins[0], segment=0, S=0, resolution=30))
        except Exception:  # noqa: BLE001
            return True
        return False
    return None
