"""C15 — geodetic <-> authalic latitude conversion is accurate and invertible (DESIGN.md §6 C15)."""
import math

from hypothesis import strategies as st

from lib import refgeo
from lib.runner import Stage, Violation, hyp_drive, HarnessError

RULE = ("latitudes (1-D domain): uniform grid of 2e5 (quick) / 2e6 (thorough) points over [-90,90], log-spaced approaches "
        "10^-k (k=1..15) to 0 and +-90, Hypothesis floats in [-pi/2,pi/2] (subnormals, +-0, exact bounds), the degree path "
        "through from_lonlat/to_lonlat. Oracle: closed-form WGS84 authalic latitude (cancellation-free near the poles; audited "
        "against mpmath at 50 digits on a sub-grid) within 1e-10; odd; strictly increasing on consecutive grid points and on "
        "pairs >=1e-12 apart; fixes 0 and +-pi/2 to 1e-15; inverse(forward(phi)) within 1e-12. Call sequences (forward/inverse over a pool of 1-3 values, length 2-8) on a long-lived converter and on the library's singleton must answer like a fresh converter. Every grid point is a distinct "
        "case; non-trivial = all except phi=0.")
ASSUMPTIONS = ["WGS84 flattening 1/298.257223563; closed form q(phi) per Snyder 3-11/3-12"]
TOL_FWD = 1e-10
TOL_RT = 1e-12


def _lib():
    from a5.projections.authalic import AuthalicProjection
    from a5.core import coordinate_transforms as ct
    return AuthalicProjection(), ct


def judge_phi(phi, A, col=None, case=None):
    case = case or {"phi": phi}
    try:
        f = A.forward(phi)
        b = A.inverse(f)
        fm = A.forward(-phi)
    except Exception as e:  # noqa: BLE001
        raise Violation("conversion_raised", case, observed=f"{type(e).__name__}: {e}", expected="a latitude")
    ref = refgeo.authalic_lat_closed(phi)
    err = abs(f - ref)
    if not err <= TOL_FWD:
        raise Violation("forward_vs_closed_form", case, observed=f"{f!r} (err {err:.3e})", expected=f"{ref!r} +- {TOL_FWD}")
    if fm != -f:
        raise Violation("not_odd", case, observed=fm, expected=-f)
    rt = abs(b - phi)
    if not rt <= TOL_RT:
        raise Violation("round_trip", case, observed=f"{b!r} (err {rt:.3e})", expected=f"{phi!r} +- {TOL_RT}")
    if col is not None:
        col.measure("forward_err", err, case)
        col.measure("round_trip_err", rt, case)
    return f


def stage_grid(ctx):
    A, ct = _lib()
    n = 200000 if ctx.tier == "quick" else 2000000
    lo = ctx.shard * n // ctx.nshards
    hi = (ctx.shard + 1) * n // ctx.nshards
    prev = None
    prev_phi = None
    for i in range(max(0, lo - 1), min(n, hi) + 1):
        phi = -math.pi / 2 + math.pi * i / n
        phi = max(-math.pi / 2, min(math.pi / 2, phi))
        f = judge_phi(phi, A, ctx.col if i % 97 == 0 else None)
        if prev is not None and not f > prev:
            raise Violation("not_strictly_increasing", {"phi": phi, "phi_prev": prev_phi}, observed=(prev, f), expected="increasing")
        prev, prev_phi = f, phi
    ctx.col.bulk(hi - lo, hi - lo, cls="grid", sample={"phi": -math.pi / 2 + math.pi * (lo + 1) / n})
    ctx.col.exhaustive[f"uniform grid of {n} latitudes"] = True


def stage_special(ctx):
    A, ct = _lib()
    col = ctx.col
    for x, want in ((0.0, 0.0), (math.pi / 2, math.pi / 2), (-math.pi / 2, -math.pi / 2)):
        f = A.forward(x)
        g = A.inverse(x)
        if abs(f - want) > 1e-15 or abs(g - want) > 1e-15:
            raise Violation("fixed_point", {"phi": x}, observed=(f, g), expected=want)
        col.bulk(1, 1 if x else 0, cls="fixed_points", sample={"phi": x})
    for k in range(1, 16):
        for m in (1.0, 2.5, 7.0):
            d = m * 10.0 ** (-k)
            for phi in (d, -d, math.pi / 2 - d, -math.pi / 2 + d):
                judge_phi(phi, A, col)
                col.bulk(1, 1, cls="log_approach", sample={"phi": phi})
            # monotone across the tiny step (only meaningful when the step is representable)
            for base in (0.0, math.pi / 2 - 2 * d):
                a, b = base, base + d
                if b - a >= 1e-12 and b <= math.pi / 2:
                    if not A.forward(b) > A.forward(a):
                        raise Violation("not_strictly_increasing", {"phi": b, "phi_prev": a}, observed=(A.forward(a), A.forward(b)), expected="increasing")
    # degree path: from_lonlat / to_lonlat
    for i in range(-900, 901):
        lat = i / 10.0
        th, ph = ct.from_lonlat((12.5, lat))
        ref = math.pi / 2 - refgeo.authalic_lat_closed(math.radians(lat))
        if abs(ph - ref) > TOL_FWD:
            raise Violation("from_lonlat_latitude", {"lat_deg": lat}, observed=ph, expected=ref)
        lon2, lat2 = ct.to_lonlat((th, ph))
        if abs(lat2 - lat) > math.degrees(TOL_RT) or abs(lon2 - 12.5) > 1e-9:
            raise Violation("lonlat_round_trip", {"lat_deg": lat}, observed=(lon2, lat2), expected=(12.5, lat))
        col.bulk(1, 1, cls="degree_path", sample={"lat_deg": lat})


def stage_audit(ctx):
    """The float closed form itself is audited against mpmath (50 digits) — harness self-check."""
    import mpmath as mp
    A, ct = _lib()
    mp.mp.dps = 50
    e2 = mp.mpf(refgeo.E2)
    e = mp.sqrt(e2)

    def q(s):
        return (1 - e2) * (s / (1 - e2 * s * s) + mp.atanh(e * s) / e)
    qp = q(mp.mpf(1))
    n = 400 if ctx.tier == "quick" else 2000
    pts = [-math.pi / 2 + math.pi * (i + 0.37) / n for i in range(n)]
    pts += [math.pi / 2 - 10.0 ** (-k) for k in range(1, 16)] + [-math.pi / 2 + 10.0 ** (-k) for k in range(1, 16)]
    for phi in pts[ctx.shard::ctx.nshards]:
        exact = mp.asin(q(mp.sin(mp.mpf(phi))) / qp)
        ref = refgeo.authalic_lat_closed(phi)
        if abs(mp.mpf(ref) - exact) > mp.mpf("1e-14"):
            raise HarnessError(f"closed-form oracle off at {phi}: {ref} vs {exact}")
        f = A.forward(phi)
        err = float(abs(mp.mpf(f) - exact))
        ctx.col.measure("forward_err_vs_mpmath", err, {"phi": phi})
        if err > TOL_FWD:
            raise Violation("forward_vs_closed_form", {"phi": phi}, observed=f, expected=float(exact))
        ctx.col.bulk(1, 1, cls="mpmath_audit", sample={"phi": phi})


def judge(case, col):
    if "ops" in case:
        return judge_sequence(case, col)
    A, ct = _lib()
    if "phi_prev" in case or "pair" in case:
        a, b = (case["phi_prev"], case["phi"]) if "phi_prev" in case else case["pair"]
        judge_phi(a, A)
        judge_phi(b, A)
        if b - a >= 1e-12 and not A.forward(b) > A.forward(a):
            raise Violation("not_strictly_increasing", case, observed=(A.forward(a), A.forward(b)), expected="increasing")
        col.case(case, nontrivial=True, classes=("pair",))
        return
    if "lat_deg" in case:
        lat = case["lat_deg"]
        th, ph = ct.from_lonlat((12.5, lat))
        ref = math.pi / 2 - refgeo.authalic_lat_closed(math.radians(lat))
        if abs(ph - ref) > TOL_FWD:
            raise Violation("from_lonlat_latitude", case, observed=ph, expected=ref)
        col.case(case, nontrivial=True, classes=("degree_path",))
        return
    judge_phi(case["phi"], A, col, case)
    band = "polar" if abs(case["phi"]) > math.radians(89) else "equatorial" if abs(case["phi"]) < math.radians(1) else "mid"
    col.case(case, nontrivial=case["phi"] != 0, classes=("hyp", "band_" + band))


def cases():
    phi = st.floats(-math.pi / 2, math.pi / 2, allow_nan=False)
    pair = st.tuples(phi, st.floats(1e-12, 1e-3)).map(lambda t: {"pair": [t[0], min(math.pi / 2, t[0] + t[1])]})
    near = st.tuples(st.sampled_from([0.0, math.pi / 2, -math.pi / 2]), st.floats(-16, -1), st.booleans()).map(
        lambda t: {"phi": max(-math.pi / 2, min(math.pi / 2, t[0] + (1 if t[2] else -1) * 10.0 ** t[1]))})
    return st.one_of(phi.map(lambda x: {"phi": x}), pair, near, st.floats(-90, 90, allow_nan=False).map(lambda x: {"lat_deg": x}))


def stage_hyp(ctx):
    hyp_drive(ctx, cases(), judge, 3000 if ctx.tier == "quick" else 60000)


def judge_sequence(case, col):
    """A long-lived converter object (and the library's own singleton) must answer every call like a fresh one,
    whatever was asked before: sequences of forward/inverse over a small pool of values (so that equal arguments meet)."""
    from a5.projections.authalic import AuthalicProjection
    from a5.core import coordinate_transforms as ct
    ops = case["ops"]
    for name, obj in (("own_instance", AuthalicProjection()), ("library_singleton", ct.authalic)):
        for i, (op, v) in enumerate(ops):
            fresh = AuthalicProjection()
            want = fresh.forward(v) if op == "f" else fresh.inverse(v)
            got = obj.forward(v) if op == "f" else obj.inverse(v)
            if got != want:
                raise Violation("result_depends_on_earlier_calls", case, observed=f"{op}({v!r}) = {got!r} on {name} after {i} calls",
                                expected=f"{want!r} (fresh converter)")
            if op == "f" and abs(got - refgeo.authalic_lat_closed(v)) > TOL_FWD:
                raise Violation("forward_vs_closed_form", case, observed=got, expected=refgeo.authalic_lat_closed(v))
    col.case(case, nontrivial=len({v for _, v in ops}) < len(ops), classes=("sequence", f"seq_len{min(len(ops), 8)}"))


def sequences():
    pool = st.lists(st.floats(-math.pi / 2, math.pi / 2, allow_nan=False), min_size=1, max_size=3)
    return pool.flatmap(lambda vals: st.lists(st.tuples(st.sampled_from(["f", "i"]), st.sampled_from(vals)), min_size=2, max_size=8)
                        ).map(lambda ops: {"ops": [list(o) for o in ops]})


def stage_sequences(ctx):
    hyp_drive(ctx, sequences(), judge_sequence, 800 if ctx.tier == "quick" else 20000)


def stage_boundary(ctx):
    """Latitudes at which the operands of the conversion code's own comparisons meet (lib/cmpsearch.py: thresholds,
    tolerance bands, early exits of series loops), and their 1e-16..1e-6 rad surroundings."""
    from lib import cmpsearch
    anc = cmpsearch.anchors(ctx, "auth", 12 if ctx.tier == "quick" else 60)
    if not anc:
        ctx.col.count("boundary_stage_without_anchors")
        return
    unit = st.floats(0, 1, allow_nan=False)

    def mk(a, u, side, exact, deg):
        if deg:
            return {"lat_deg": max(-90.0, min(90.0, a["lat"] + (0.0 if exact else (1 if side else -1) * 10.0 ** (-14 + 9 * u))))}
        phi = math.radians(a["lat"]) + (0.0 if exact else (1 if side else -1) * 10.0 ** (-16 + 10 * u))
        return {"phi": max(-math.pi / 2, min(math.pi / 2, phi))}
    strat = st.builds(mk, st.sampled_from(anc), unit, st.booleans(), st.booleans(), st.booleans())
    hyp_drive(ctx, strat, judge, 600 if ctx.tier == "quick" else 15000)


def plan(tier):
    return [Stage("grid", 16, stage_grid, cost=6), Stage("special", 1, stage_special), Stage("audit", 4, stage_audit, cost=3),
            Stage("hyp", 8, stage_hyp, cost=3), Stage("sequences", 4, stage_sequences, cost=3), Stage("boundary", 8, stage_boundary, cost=3)]


def replay(rec, col):
    judge(rec["case"], col)
