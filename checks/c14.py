"""C14 — the face projection preserves area for arbitrary regions, not only cells (DESIGN.md §6 C14)."""
import math

from hypothesis import strategies as st

from lib import refgeo
from lib.runner import Stage, Violation, hyp_drive, guarded
from checks.c13 import D_EDGE, D_VERT, hexagon, _inside_convex, _lib as _projlib

RULE = ("(face 0..11, polygon): triangles and star-shaped quadrilaterals/pentagons with all vertices in one convex piece "
        "D_k = face pentagon U mirror triangle k, sizes log-uniform 1e-4..0.5 face widths, centres drawn by class (near the "
        "face edge line, near a seam ray gamma=m*36deg, inside a mirror triangle, around the face centre, anywhere). Oracle: "
        "polygon edges split at seam rays and at the pentagon edge line, each piece densified (k=64 and 128 points), "
        "DodecahedronProjection.inverse, spherical area by an independent 3-D formula, Richardson extrapolation; compared with "
        "planar shoelace area * (4pi/12)/(5 r^2 tan36), r=(sqrt5-1)/2; tolerance 1e-6 relative, declared only if the "
        "(64,128) and (128,256) estimates agree; when they disagree, the raw areas at n=64,128,256 must still decay (two of them over 2/n^2 = violation). Non-trivial = polygon crosses a seam or the face edge, or size<1e-3; "
        "distinct by hash.")
ASSUMPTIONS = ["face-plane geometry (inradius (sqrt5-1)/2, seam rays every 36 degrees) is the published A5 face layout"]
TOL = 1e-6
FACTOR = (4 * math.pi / 12) / (5 * D_EDGE * D_EDGE * math.tan(math.radians(36)))
REQUIRED_CLASSES = {"crosses_face_edge": ("generated", 0.1), "crosses_seam": ("generated", 0.15), "tiny": ("generated", 0.05)}


def _shoelace(pts):
    s = 0.0
    n = len(pts)
    for i in range(n):
        s += pts[i][0] * pts[(i + 1) % n][1] - pts[(i + 1) % n][0] * pts[i][1]
    return 0.5 * s


def split_params(P, Q, k):
    """Parameters t in (0,1) where segment P->Q crosses a seam ray (angle m*36deg) or the line of pentagon edge k."""
    ts = []
    dx, dy = Q[0] - P[0], Q[1] - P[1]
    for m in range(10):
        a = math.radians(36 * m)
        # ray direction (c, s); crossing where cross((c,s), P + t d) = 0 and dot > 0
        c, s = math.cos(a), math.sin(a)
        den = c * dy - s * dx
        if abs(den) < 1e-300:
            continue
        t = -(c * P[1] - s * P[0]) / den
        if 0 < t < 1:
            x, y = P[0] + t * dx, P[1] + t * dy
            if x * c + y * s > 0:
                ts.append(t)
    a = math.radians(72 * k)
    c, s = math.cos(a), math.sin(a)
    den = dx * c + dy * s
    if abs(den) > 1e-300:
        t = (D_EDGE - (P[0] * c + P[1] * s)) / den
        if 0 < t < 1:
            ts.append(t)
    return sorted(set(ts))


def densify(poly, k, n):
    """-> list of plane points along the polygon boundary, edges split at seams / edge line, n points per piece."""
    out = []
    crossings = {"seam": 0, "edge": 0}
    m = len(poly)
    for i in range(m):
        P, Q = poly[i], poly[(i + 1) % m]
        ts = [0.0] + split_params(P, Q, k) + [1.0]
        for a, b in zip(ts, ts[1:]):
            for j in range(n):
                t = a + (b - a) * j / n
                out.append((P[0] + t * (Q[0] - P[0]), P[1] + t * (Q[1] - P[1])))
    return out


def classify(poly, k):
    seam = edge = False
    m = len(poly)
    a = math.radians(72 * k)
    c, s = math.cos(a), math.sin(a)
    sides = [p[0] * c + p[1] * s > D_EDGE for p in poly]
    edge = any(sides) and not all(sides)
    sect = {math.floor(math.atan2(p[1], p[0]) / math.radians(36)) % 10 for p in poly}
    seam = len(sect) > 1
    return seam, edge, all(sides)


def sphere_area(plane_pts, face, case):
    proj, axes = _projlib()
    vs = []
    for q in plane_pts:
        th, ph = guarded(proj.inverse, q, face, kind="inverse_raised", case=case)
        vs.append((math.sin(ph) * math.cos(th), math.sin(ph) * math.sin(th), math.cos(ph)))
    return abs(refgeo.area_3d_vecs(vs))


def estimate(poly, k, face, n, case):
    a1 = sphere_area(densify(poly, k, n), face, case)
    a2 = sphere_area(densify(poly, k, 2 * n), face, case)
    return (4 * a2 - a1) / 3


def judge(case, col):
    poly = [tuple(p) for p in case["poly"]]
    k, face = case["k"], case["face"]
    planar = abs(_shoelace(poly))
    hx = hexagon(k)
    if not all(_inside_convex(p, hx) for p in poly):
        col.case(case, nontrivial=False, classes=("out_of_domain",))      # not inside pentagon U mirror triangle k
        return
    per = sum(math.hypot(poly[i][0] - poly[(i + 1) % len(poly)][0], poly[i][1] - poly[(i + 1) % len(poly)][1]) for i in range(len(poly)))
    if planar <= 0.01 * per * per:
        # sliver: relative area is ill-conditioned, the property's tolerance is meaningless for it
        col.case(case, nontrivial=False, classes=("degenerate_sliver",))
        return
    want = planar * FACTOR
    e1 = estimate(poly, k, face, 64, case) / want - 1
    err = e1
    if abs(e1) > TOL:
        e2 = estimate(poly, k, face, 128, case) / want - 1
        if abs(e2) > TOL and abs(e2 - e1) <= 0.2 * abs(e1):
            raise Violation("area_not_preserved", case, observed=f"relative error {e2:.3e} (n=128/256; {e1:.3e} at 64/128)", expected=f"|error| <= {TOL}")
        if abs(e2) > TOL:
            # the extrapolated estimates disagree, so the boundary image is not a smooth curve sampled ever more finely.
            # Fall back to the raw polygonal areas: for a piecewise smooth image their relative error decays like
            # c/n^2 with c well below 2 for polygons of at most half a face width; a boundary point that is thrown
            # somewhere else (a spike) leaves an error that does not decay.
            raw = {n: sphere_area(densify(poly, k, n), face, case) / want - 1 for n in (64, 128, 256)}
            over = [n for n, r in raw.items() if abs(r) > max(2.0 / (n * n), 10 * TOL)]
            if len(over) >= 2:
                raise Violation("area_not_preserved", case, observed="raw relative errors " + ", ".join(f"n={n}: {r:.3e}" for n, r in raw.items()) + " do not decay with n",
                                expected="relative error <= 2/n^2 for n boundary points per piece")
            col.count("inconclusive")
            col.case(case, nontrivial=False, classes=("inconclusive",))
            return
        err = e2
    col.measure("area_factor_rel_err", abs(err), case)
    seam, edge, allmirror = classify(poly, k)
    size = math.sqrt(planar) / (2 * D_EDGE)
    classes = ["polygon", "cls_" + case.get("cls", "replay"), f"n{len(poly)}"] + (["generated"] if case.get("cls") != "branch_boundary" else [])
    if seam:
        classes.append("crosses_seam")
    if edge:
        classes.append("crosses_face_edge")
    if allmirror:
        classes.append("inside_mirror_triangle")
    if size < 1e-3:
        classes.append("tiny")
    col.case(case, nontrivial=seam or edge or size < 1e-3, classes=classes)


_unit = st.floats(0.0, 1.0, allow_nan=False)


def cases():
    def mk(face, k, cls, u1, u2, usize, nverts, angs, rads):
        hx = hexagon(k)
        size = 10.0 ** (-4 + 3.7 * usize) * 2 * D_EDGE        # 1e-4 .. 0.5 face widths
        a = math.radians(72 * k)
        ex, ey = math.cos(a), math.sin(a)
        if cls == "edge":       # centre within one radius of the face edge line
            along = (2 * u1 - 1) * D_VERT * math.sin(math.radians(36))
            off = (2 * u2 - 1) * size
            c = (ex * (D_EDGE + off) - ey * along, ey * (D_EDGE + off) + ex * along)
        elif cls == "seam":     # centre within one radius of a seam ray
            m = int(u1 * 10) % 10
            ra = math.radians(36 * m)
            rho = u2 * D_VERT
            off = (2 * (u1 * 10 % 1) - 1) * size
            c = (rho * math.cos(ra) - off * math.sin(ra), rho * math.sin(ra) + off * math.cos(ra))
        elif cls == "mirror":   # inside the mirror triangle
            w = sorted([u1, u2])
            b0, b1, b2 = w[0], w[1] - w[0], 1 - w[1]
            tri = [hx[k], hx[(k + 1) % 6], hx[(k - 1) % 6]]     # mirror point and its two neighbours
            c = (b0 * tri[0][0] + b1 * tri[1][0] + b2 * tri[2][0], b0 * tri[0][1] + b1 * tri[1][1] + b2 * tri[2][1])
        elif cls == "centre":
            c = ((2 * u1 - 1) * size, (2 * u2 - 1) * size)
        else:
            ws = [u1, u2, 1 - u1, 1 - u2, 0.5, abs(u1 - u2)]
            s = sum(ws)
            c = (sum(w * p[0] for w, p in zip(ws, hx)) / s, sum(w * p[1] for w, p in zip(ws, hx)) / s)
        # D_k is convex: blending toward its centroid g moves any point inside. The polygon is built around c and,
        # if a vertex falls outside D_k, the whole polygon is moved toward g (shape and size kept) until it fits.
        g = (sum(p[0] for p in hx) / 6, sum(p[1] for p in hx) / 6)
        phase = angs[0]
        offs = []
        for i in range(nverts):
            ang = 2 * math.pi * (phase + (i + 0.8 * (angs[i] - 0.5)) / nverts)      # separated angles: no slivers
            rr = size * (0.4 + 0.6 * rads[i])
            offs.append((rr * math.cos(ang), rr * math.sin(ang)))
        for _ in range(80):
            poly = [[c[0] + o[0], c[1] + o[1]] for o in offs]
            if all(_inside_convex(p, hx) for p in poly):
                break
            c = (c[0] + 0.15 * (g[0] - c[0]), c[1] + 0.15 * (g[1] - c[1]))
        return {"face": face, "k": k, "poly": poly, "cls": cls}

    return st.builds(mk, st.integers(0, 11), st.integers(0, 4),
                     st.sampled_from(["edge", "edge", "seam", "seam", "mirror", "centre", "any", "any"]),
                     _unit, _unit, _unit, st.integers(3, 5),
                     st.lists(_unit, min_size=5, max_size=5), st.lists(_unit, min_size=5, max_size=5))


def stage_hyp(ctx):
    hyp_drive(ctx, cases(), judge, 120 if ctx.tier == "quick" else 5000)


def stage_boundary(ctx):
    """Polygons with one vertex exactly on a discovered branch boundary of the projection code (lib/boundary.py)."""
    from lib import boundary
    from a5.core.coordinate_transforms import from_lonlat
    from checks import c13
    proj, axes = _projlib()
    anc = boundary.anchors(ctx, "proj", 200 if ctx.tier == "quick" else 1200)
    if not anc:
        ctx.col.count("boundary_stage_skipped")
        return
    plane = []
    for a in anc:
        p = (a["lon"], a["lat"])
        F, _G = c13.faces_by_distance(refgeo.lonlat_to_frame(p))
        try:
            q = proj.forward(from_lonlat(p), F)
        except Exception:  # noqa: BLE001
            continue
        plane.append((F, (q[0], q[1])))

    def mk(i, usize, ang, nverts, rads):
        face, q = plane[i % len(plane)]
        k = int(round(math.degrees(math.atan2(q[1], q[0])) / 72.0)) % 5
        hx = hexagon(k)
        size = 10.0 ** (-4 + 2.5 * usize) * 2 * D_EDGE
        g = (sum(p[0] for p in hx) / 6, sum(p[1] for p in hx) / 6)
        # first vertex = the boundary point itself; the others fan out toward the inside of D_k
        base = math.atan2(g[1] - q[1], g[0] - q[0])
        poly = [[q[0], q[1]]]
        for j in range(1, nverts):
            a_ = base + (j - nverts / 2.0) * (1.6 / nverts) + 0.3 * (ang - 0.5)
            r_ = size * (0.5 + 0.5 * rads[j])
            poly.append([q[0] + r_ * math.cos(a_), q[1] + r_ * math.sin(a_)])
        # keep counter-clockwise order irrelevant: area is compared in absolute value
        return {"face": face, "k": k, "poly": poly, "cls": "branch_boundary"}
    # every discovered anchor is used (a few polygons each); the shape parameters come from Hypothesis
    import hypothesis
    from hypothesis import HealthCheck, Phase, given, settings
    reps = 2 if ctx.tier == "quick" else 12
    params = []

    @hypothesis.seed(ctx.shard_seed)
    @settings(max_examples=len(plane) * reps + 10, database=None, deadline=None, phases=[Phase.generate], suppress_health_check=list(HealthCheck))
    @given(st.tuples(_unit, _unit, st.integers(3, 4), st.lists(_unit, min_size=5, max_size=5)))
    def collect(t):
        params.append(t)
    collect()
    params = params[10:] or params
    for n, t in enumerate(params):
        judge(mk(n % len(plane), *t), ctx.col)


def plan(tier):
    return [Stage("hyp", 16, stage_hyp, cost=8), Stage("boundary", 16, stage_boundary, cost=6)]


def replay(rec, col):
    judge(rec["case"], col)
