"""C09 — compact output is the unique minimal, duplicate-free representation (DESIGN.md §6 C09)."""
from hypothesis import strategies as st

from lib import antichain_enum, gens, refids
from lib.runner import Stage, Violation, hyp_drive
from checks.c08 import has_complete_group

RULE = ("antichains of the hierarchy (no cell an ancestor of another), duplicates allowed, resolutions mixed across faces: "
        "complete enumeration of the bounded sub-hierarchy of C08, Hypothesis antichains (recursive split/keep/drop, deep "
        "grafts; spines: a root refined along one path down to res 29 so that every level must merge) with permutations and duplications, long contiguous same-resolution runs (lengths around powers of 4 up to 4096), atheris (thorough). Oracle: set-based reference compaction "
        "(refids.ref_compact); output has no duplicates, equals the reference as a set, is the same for the generated orderings and for the numerically ascending (deduplicated) and descending orderings, and "
        "compact(compact(X)) == compact(X). Non-trivial = the reference result differs from set(X) (something had to merge) and "
        "X mixes >=2 resolutions across >=2 faces; distinct by the input list.")
ASSUMPTIONS = ["documented id layout is the specification (refids.parent/children)"]
REQUIRED_CLASSES = {"must_merge": ("hyp", 0.3), "res0_of_face0-2_with_finer_cells": ("hyp", 0.03)}


def judge_cells(cells, case, orderings=(), sorted_too=True):
    import a5
    ref = refids.ref_compact(cells)
    outs = []
    # numerically sorted inputs are a natural special case for an implementation (fast paths): included by default
    special = [sorted(set(cells)), sorted(cells, reverse=True)] if sorted_too else []
    for arg in (cells,) + tuple(orderings) + tuple(x for x in special if x != cells):
        try:
            out = a5.compact(list(arg))
        except Exception as e:  # noqa: BLE001
            raise Violation("compact_raised", case, observed=f"{type(e).__name__}: {e}", expected="a list of cells")
        if len(set(out)) != len(out):
            raise Violation("duplicates_in_output", case, observed=f"{len(out) - len(set(out))} repeated", expected="each cell once")
        if set(out) != ref:
            extra = [hex(x) for x in sorted(set(out) - ref)[:4]]
            missing = [hex(x) for x in sorted(ref - set(out))[:4]]
            kind = "not_minimal" if refids.union_intervals(out) == refids.union_intervals(cells) else "wrong_region"
            raise Violation(kind, case, observed=f"{len(out)} cells; unexpected {extra}", expected=f"{len(ref)} cells; missing {missing}")
        outs.append(out)
    again = a5.compact(list(outs[0]))
    if set(again) != set(outs[0]) or len(again) != len(outs[0]):
        raise Violation("not_idempotent", case, observed=f"{len(again)} cells", expected=f"{len(outs[0])} cells")
    return ref


def classify(cells, ref):
    classes = []
    s = set(cells)
    must = ref != s
    if must:
        classes.append("must_merge")
    ress = {refids.res_of(c) for c in s}
    faces = {refids.dec(c)[1] for c in s if c}
    if any(refids.res_of(c) == 0 and refids.dec(c)[1] <= 2 for c in s) and any(r >= 1 for r in ress):
        classes.append("res0_of_face0-2_with_finer_cells")
    if len(s) < len(cells):
        classes.append("has_duplicates")
    return classes, must and len(ress) >= 2 and len(faces) >= 2


def judge(case, col):
    cells = [int(x, 16) for x in case["cells"]]
    ords = [[int(x, 16) for x in o] for o in case.get("orderings", [])]
    ref = judge_cells(cells, case, ords)
    classes, nt = classify(cells, ref)
    col.case(case, nontrivial=nt, classes=["hyp" if case.get("src") != "fuzz" else "fuzz"] + classes)


def stage_enum(ctx):
    n = nt = 0
    sample = None
    for cells in antichain_enum.enumerate_shard(ctx.tier, ctx.shard, ctx.nshards):
        case = {"cells": [hex(c) for c in cells]}
        # reversed order as the metamorphic partner (cheap) on every case
        # thorough enumerates 7.2 M antichains: the sorted orderings are added for every 8th of them there
        ref = judge_cells(cells, case, (cells[::-1],), sorted_too=(ctx.tier == "quick" or n % 8 == 0))
        n += 1
        _cls, isnt = classify(cells, ref)
        nt += isnt
        if sample is None and isnt:
            sample = case
    ctx.col.bulk(n, nt, cls="enum_antichain", sample=sample)
    ctx.col.exhaustive[f"all antichains of the bounded sub-hierarchy ({antichain_enum.count(ctx.tier)})"] = True


@st.composite
def cases(draw):
    base = draw(st.one_of(gens.antichains(), gens.antichains(), gens.spines(), gens.near_groups()))
    o1 = draw(gens.orderings(st.just(base)))
    o2 = draw(gens.orderings(st.just(base)))
    return {"cells": [hex(c) for c in base], "orderings": [[hex(c) for c in o1], [hex(c) for c in o2]]}


def stage_hyp(ctx):
    hyp_drive(ctx, cases(), judge, 700 if ctx.tier == "quick" else 20000)


def stage_blocks(ctx):
    """Long lists (100-800 cells) with merge sites at chosen list positions (head, tail, far apart) and cascades."""
    @st.composite
    def blk(draw):
        base = draw(gens.block_refinements())
        o1 = draw(gens.orderings(st.just(base))) if len(base) <= 400 else base[::-1]
        return {"cells": [hex(c) for c in base], "orderings": [[hex(c) for c in o1]]}

    def judge_blk(case, col):
        cells = [int(x, 16) for x in case["cells"]]
        ords = [[int(x, 16) for x in o] for o in case.get("orderings", [])]
        ref = judge_cells(cells, case, ords)
        col.case({"n": len(cells), "first": case["cells"][0], "h": hash(tuple(cells)) & 0xFFFFFFFF}, nontrivial=ref != set(cells),
                 classes=("block_refinement", "block_len>=200" if len(cells) >= 200 else "block_len<200"))
    hyp_drive(ctx, blk(), judge_blk, 150 if ctx.tier == "quick" else 4000)


def stage_runs(ctx):
    """Long contiguous same-resolution runs (lengths around powers of 4, starts aligned to 4^j), as antichains."""
    from checks.c08 import long_runs

    def to_case(cs):
        r = max(refids.res_of(c) for c in cs)
        cs = [c for c in cs if refids.res_of(c) == r]          # drop the ancestor some runs carry: antichains only
        return {"cells": [hex(c) for c in cs], "orderings": []}

    def judge_run(case, col):
        cells = [int(x, 16) for x in case["cells"]]
        ref = judge_cells(cells, case)
        col.case({"n": len(cells), "first": case["cells"][0], "last": case["cells"][-1]}, nontrivial=ref != set(cells),
                 classes=("long_run", "run_len>=1024" if len(cells) >= 1024 else "run_len<1024"))
    hyp_drive(ctx, long_runs().map(to_case), judge_run, 100 if ctx.tier == "quick" else 3000)


def decode_case(fdp):
    """bytes -> antichain: paths from the world cell; a candidate overlapping an earlier one is skipped."""
    n = fdp.ConsumeIntInRange(0, 12)
    cells = []

    def add(c):
        for o in cells:
            if refids.is_ancestor_or_equal(o, c) or refids.is_ancestor_or_equal(c, o):
                return
        cells.append(c)
    for _ in range(n):
        depth = fdp.ConsumeIntInRange(0, 6)
        cur = 0
        for _d in range(depth):
            cur = gens.descend(cur, [fdp.ConsumeIntInRange(0, 11)])
        r = refids.res_of(cur)
        mode = fdp.ConsumeIntInRange(0, 2)
        if mode == 0 and r >= 0:
            for s in refids.children(refids.parent(cur, r - 1), r):
                add(s)
        else:
            add(cur)
    rev = cells[::-1]
    return {"cells": [hex(c) for c in cells], "orderings": [[hex(c) for c in rev]], "src": "fuzz"}


def stage_fuzz(ctx):
    from lib import fuzz
    fuzz.run(ctx, "C09", decode_case, judge, runs=60000)


def plan(tier):
    s = [Stage("enum", 16, stage_enum, cost=10), Stage("hyp", 16, stage_hyp, cost=6), Stage("runs", 16, stage_runs, cost=6), Stage("blocks", 16, stage_blocks, cost=6)]
    if tier == "thorough":
        s.append(Stage("fuzz", 4, stage_fuzz, cost=6))
    return s


def replay(rec, col):
    judge(rec["case"], col)
