"""C08 — compact never changes the covered region (DESIGN.md §6 C08)."""
import itertools

from hypothesis import strategies as st

from lib import antichain_enum, gens, refids
from lib.runner import Stage, Violation, hyp_drive

RULE = ("finite multisets of valid cells, res -1..29: (1) complete enumeration of all antichains of a bounded sub-hierarchy "
        "spanning every aperture (108,109 quick / 7,184,269 thorough) plus every input order of the small ones; (2) Hypothesis "
        "antichains by recursive split/keep/drop with deep grafts, with ancestor/descendant overlaps, permuted and with "
        "duplicates; (3) long contiguous same-resolution runs with lengths at and around powers of 4 (up to 4096) and starts aligned to 4^j; (4) atheris (thorough). Oracle: union of res-29 leaf intervals (refids.interval) of compact(X) equals "
        "that of X; when the expansion is <= 20k cells also literally set(uncompact(compact(X),R)) == set(uncompact(X,R)). "
        "Non-trivial = X holds a complete sibling group or an ancestor/descendant overlap; distinct by the input list.")
ASSUMPTIONS = ["documented id layout is the specification (refids.interval)"]
REQUIRED_CLASSES = {"has_complete_group": ("hyp", 0.2), "has_overlap": ("hyp", 0.15)}


def has_complete_group(cells):
    s = set(cells)
    groups = {}
    for c in s:
        r = refids.res_of(c)
        if r >= 0:
            groups.setdefault((r, refids.parent(c, r - 1)), 0)
            groups[(r, refids.parent(c, r - 1))] += 1
    for (r, _p), n in groups.items():
        if n == (12 if r == 0 else 5 if r == 1 else 4):
            return True
    return False


def has_overlap(cells):
    iv = sorted({refids.interval(c) for c in set(cells)})
    for (a, b), (c, d) in zip(iv, iv[1:]):
        if c < b:
            return True
    return False


def judge_cells(cells, case, literal=True):
    import a5
    arg = list(cells)
    try:
        out = a5.compact(arg)
    except Exception as e:  # noqa: BLE001
        raise Violation("compact_raised", case, observed=f"{type(e).__name__}: {e}", expected="a list of cells")
    if arg != cells:
        raise Violation("argument_modified", case, observed="input list changed", expected="unchanged")
    for c in out:
        if not refids.is_valid(c):
            raise Violation("invalid_cell_in_output", case, observed=hex(c), expected="valid ids")
    want = refids.union_intervals(cells)
    got = refids.union_intervals(out)
    if got != want:
        lost = _diff(want, got)
        added = _diff(got, want)
        raise Violation("coverage_changed", case, observed=f"lost {lost[:2]} added {added[:2]}", expected="same covered region")
    if literal and cells:
        R = max(refids.res_of(c) for c in cells)
        if sum(refids.nchildren(refids.res_of(c), R) for c in cells) <= 20000:
            a = set(a5.uncompact(out, R))
            b = set(a5.uncompact(cells, R))
            if a != b:
                raise Violation("coverage_changed_literal", case, observed=f"{len(a ^ b)} cells differ at res {R}", expected="equal sets")
    return out


def _diff(a, b):
    """Intervals in a not covered by b (coarse, for the report only)."""
    out = []
    for lo, hi in a:
        cur = lo
        for l2, h2 in b:
            if h2 <= cur or l2 >= hi:
                continue
            if l2 > cur:
                out.append((cur, l2))
            cur = max(cur, h2)
        if cur < hi:
            out.append((cur, hi))
    return out


def judge(case, col):
    cells = [int(x, 16) for x in case["cells"]]
    judge_cells(cells, case)
    asc = sorted(set(cells))
    if asc != cells:
        # numerically ascending, duplicate-free input: the natural fast-path special case
        judge_cells(asc, {"cells": [hex(c) for c in asc]}, literal=False)
    g, o = has_complete_group(cells), has_overlap(cells)
    classes = ["hyp" if case.get("src") != "fuzz" else "fuzz"]
    if g:
        classes.append("has_complete_group")
    if o:
        classes.append("has_overlap")
    if 0 in cells:
        classes.append("has_world")
    if len(set(cells)) < len(cells):
        classes.append("has_duplicates")
    col.case(case, nontrivial=g or o, classes=classes)


def stage_enum(ctx):
    n = nt = nperm = 0
    sample = None
    for cells in antichain_enum.enumerate_shard(ctx.tier, ctx.shard, ctx.nshards):
        case = {"cells": [hex(c) for c in cells]}
        judge_cells(cells, case, literal=(n % 97 == 0))
        n += 1
        g = has_complete_group(cells)
        nt += g
        if sample is None and g:
            sample = case
        # every input order of small cases
        if 2 <= len(cells) <= (4 if ctx.tier == "quick" else 5) and n % 7 == 0:
            for perm in itertools.permutations(cells):
                judge_cells(list(perm), {"cells": [hex(c) for c in perm]}, literal=False)
                nperm += 1
    ctx.col.bulk(n, nt, cls="enum_antichain", sample=sample)
    ctx.col.bulk(nperm, 0, cls="enum_permutation")
    ctx.col.exhaustive[f"all antichains of the bounded sub-hierarchy ({antichain_enum.count(ctx.tier)})"] = True


def cases():
    base = st.one_of(gens.antichains(), gens.antichains(), gens.spines(), gens.near_groups(), gens.near_groups())
    return st.one_of(gens.orderings(base), gens.orderings(gens.with_overlaps(base)), gens.with_overlaps(base)).map(
        lambda cs: {"cells": [hex(c) for c in cs]})


@st.composite
def long_runs(draw):
    """Contiguous same-resolution runs (a filled region as a sorted listing would give it): lengths at and around
    powers of 4 up to 4096, starts aligned to 4^j for a random j, optional gap / extra cell / shuffle."""
    k = draw(st.integers(1, 5))
    span = min(6, k + draw(st.integers(0, 2)))            # the pool is usually larger than the run
    base = draw(gens.cell_ids(1, 29 - span))
    r = refids.res_of(base) + span
    pool = refids.children(base, r)                       # 4^span consecutive cells
    n = len(pool)
    length = min(n, max(1, 4 ** k + draw(st.sampled_from([0, 0, 0, -1, 1, 3, 4]))))
    if draw(st.integers(0, 5)) == 0:
        length = draw(st.integers(1, n))
    j = draw(st.integers(0, k))
    start = (draw(st.integers(0, max(0, (n - length)))) // 4 ** j) * 4 ** j
    run = pool[start:start + length]
    mode = draw(st.integers(0, 5))
    if mode == 0 and len(run) > 2:
        del run[draw(st.integers(0, len(run) - 1))]
    elif mode == 1:
        run.append(refids.parent(run[0], max(0, r - 2)))
    if draw(st.booleans()):
        run = list(draw(st.permutations(run))) if len(run) <= 64 else run[::-1]
    return run


def stage_runs(ctx):
    def judge_run(case, col):
        cells = [int(x, 16) for x in case["cells"]]
        judge_cells(cells, case, literal=len(cells) <= 300)
        col.case({"n": len(cells), "first": case["cells"][0], "last": case["cells"][-1]}, nontrivial=has_complete_group(cells),
                 classes=("long_run", "run_len>=1024" if len(cells) >= 1024 else "run_len<1024"))
    hyp_drive(ctx, long_runs().map(lambda cs: {"cells": [hex(c) for c in cs]}), judge_run, 120 if ctx.tier == "quick" else 4000)


def stage_blocks(ctx):
    def judge_blk(case, col):
        cells = [int(x, 16) for x in case["cells"]]
        judge_cells(cells, case, literal=False)
        col.case({"n": len(cells), "first": case["cells"][0], "h": hash(tuple(cells)) & 0xFFFFFFFF}, nontrivial=has_complete_group(cells),
                 classes=("block_refinement",))
    hyp_drive(ctx, gens.orderings(gens.block_refinements()).map(lambda cs: {"cells": [hex(c) for c in cs]}), judge_blk, 100 if ctx.tier == "quick" else 3000)


def stage_hyp(ctx):
    hyp_drive(ctx, cases(), judge, 700 if ctx.tier == "quick" else 20000)


def decode_case(fdp):
    """bytes -> list of cells: each a path from the world cell, plus optional completion of its sibling group."""
    n = fdp.ConsumeIntInRange(0, 12)
    cells = []
    for _ in range(n):
        depth = fdp.ConsumeIntInRange(0, 6)
        cur = 0
        for _d in range(depth):
            cur = gens.descend(cur, [fdp.ConsumeIntInRange(0, 11)])
        mode = fdp.ConsumeIntInRange(0, 3)
        r = refids.res_of(cur)
        if mode == 0 and r >= 0:
            cells.extend(refids.children(refids.parent(cur, r - 1), r))      # the whole sibling group
        elif mode == 1 and r >= 0:
            sib = refids.children(refids.parent(cur, r - 1), r)
            drop = fdp.ConsumeIntInRange(0, len(sib) - 1)
            cells.extend(s for i, s in enumerate(sib) if i != drop)
        else:
            cells.append(cur)
    return {"cells": [hex(c) for c in cells], "src": "fuzz"}


def stage_fuzz(ctx):
    from lib import fuzz
    fuzz.run(ctx, "C08", decode_case, judge, runs=60000)


def plan(tier):
    s = [Stage("enum", 16, stage_enum, cost=10), Stage("hyp", 16, stage_hyp, cost=6), Stage("runs", 16, stage_runs, cost=6), Stage("blocks", 16, stage_blocks, cost=6)]
    if tier == "thorough":
        s.append(Stage("fuzz", 4, stage_fuzz, cost=6))
    return s


def replay(rec, col):
    judge(rec["case"], col)
