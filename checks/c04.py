"""C04 — all cells of a resolution have equal area (DESIGN.md §6 C04)."""
import math

from hypothesis import strategies as st

from lib import gens, refgeo, refids
from lib.runner import Stage, Violation, hyp_drive, guarded, HarnessError

RULE = ("cells: all cells of res 0..4 (quick) / 0..6 (thorough); Hypothesis cells of res 4..29 by id construction (structured "
        "S) and by location (poles, frame points and their neighbourhoods, antimeridian, uniform). Oracle: rings from "
        "cell_to_boundary at k and 2k segments per edge (k=32), geodetic->authalic latitude by the closed WGS84 form, spherical "
        "area (3-D Van Oosterom-Strackee fan for res<9, Lambert-from-differences beyond; both computed and cross-checked for "
        "res 9..14), Richardson extrapolation A*=(4A(2k)-A(k))/3; |A*/(4pi/N(r)) - 1| <= 1e-6 + 4e-15 rad/L(r) (float floor of the returned degrees), declared only if the (k,2k) and "
        "(2k,4k) estimates agree; if they disagree the raw ring areas at k=64,128,256 decide (violation if two of them miss by more than 1e-6 + floor + 0.02/k^2; clean-tree maximum 0.011/k^2), else inconclusive (counted). cell_area(r) vs 4 pi R^2/N(r) to 1e-12. Every case is a "
        "distinct cell; classes: pole cell, across a face edge, res>=22.")
ASSUMPTIONS = ["curved cell edges are resolved by Richardson extrapolation over the segment count (error ~ 1/k^2)"]
TOL0 = 1e-6
K0 = 32


def tol(res):
    """1e-6 plus the floating-point floor of the ring itself: vertices are returned in degrees with an ulp of up to
    5.7e-14 deg = 1e-15 rad (longitudes are computed near -273 deg on one meridian), i.e. 6e-7 cell widths at res 29."""
    return TOL0 + 4e-15 / refgeo.cell_width(res)
REQUIRED_CLASSES = {"polar": ("hyp", 0.05), "res>=22": ("hyp", 0.1), "near_frame": ("hyp", 0.05)}


def _a5():
    import a5
    return a5


def _ring(cell, k, case):
    a5 = _a5()
    return guarded(a5.cell_to_boundary, cell, {"segments": k, "closed_ring": False}, kind="cell_to_boundary_raised", case=case)


def area_estimate(cell, res, k, case, centre):
    a1 = refgeo.ring_area(_ring(cell, k, case), res, centre)
    a2 = refgeo.ring_area(_ring(cell, 2 * k, case), res, centre)
    return (4 * a2 - a1) / 3, a1, a2


def judge_cell(cell, col, cls, enumerated=False):
    a5 = _a5()
    case = {"cell": hex(cell)}
    res = refids.res_of(cell)
    ideal = 4 * math.pi / refids.ncells(res)
    centre = guarded(a5.cell_to_lonlat, cell, kind="cell_to_lonlat_raised", case=case)
    est, a1, a2 = area_estimate(cell, res, K0, case, centre)
    err = est / ideal - 1
    classes = [cls, f"res{res:02d}"]
    if abs(centre[1]) > 80:
        classes.append("polar")
    if res >= 22:
        classes.append("res>=22")
    if refgeo.nearest_frame(centre)[0] < 3 * refgeo.cell_width(res):
        classes.append("near_frame")
    if 9 <= res <= 14:
        # oracle self-check: the two independent area formulas must agree
        b = refgeo.area_3d(_ring(cell, 2 * K0, case))
        if abs(b / a2 - 1) > 1e-7:
            raise HarnessError(f"area oracles disagree for {hex(cell)}: 3-D {b} vs Lambert {a2}")
    TOL = tol(res)
    if abs(err) > TOL:
        est2, _, _ = area_estimate(cell, res, 2 * K0, case, centre)
        err2 = est2 / ideal - 1
        if abs(err2) > TOL and abs(err2 - err) <= 0.2 * abs(err):
            raise Violation("cell_area_differs_from_equal_share", case, observed=f"relative error {err2:.3e} (k=64/128; {err:.3e} at k=32/64)", expected=f"|error| <= {TOL:.2e}")
        if abs(err2) > TOL:
            # The two extrapolated estimates disagree, i.e. the error is not the smooth O(1/k^2) kind. Fall back to the
            # rings themselves: on a correct tree |A(k)/ideal - 1| <= 0.011/k^2 + float floor for every cell measured
            # (chord-versus-arc error of the coarsest cells); a ring that misses by more than 1e-6 + floor + 0.02/k^2
            # at two of k = 64, 128, 256 encloses the wrong area however finely it is resolved.
            raw = {}
            for k in (64, 128, 256):
                raw[k] = refgeo.ring_area(_ring(cell, k, case), res, centre) / ideal - 1
            bad = [k for k, e in raw.items() if abs(e) > TOL + 0.02 / (k * k)]
            if len(bad) >= 2:
                raise Violation("cell_area_differs_from_equal_share", case,
                                observed="ring areas do not converge to the equal share: " + ", ".join(f"k={k}: {e:.3e}" for k, e in raw.items()),
                                expected=f"|error| <= {TOL:.2e} + 0.02/k^2")
            col.count("inconclusive")
            col.case(case, nontrivial=False, classes=classes + ["inconclusive"], enumerated=enumerated)
            return
        err = err2
    col.measure("area_rel_err", abs(err), case)
    col.case(case, nontrivial=True, classes=classes, enumerated=enumerated)


def stage_enum(ctx):
    maxres = 4 if ctx.tier == "quick" else 6
    for res in range(0, maxres + 1):
        for cell in refids.children(0, res)[ctx.shard::ctx.nshards]:
            judge_cell(cell, ctx.col, "enum", enumerated=True)
    ctx.col.exhaustive[f"all cells res<={maxres}"] = True


def stage_meta(ctx):
    a5 = _a5()
    R = 6371007.2
    for r in range(0, 31):
        want = 4 * math.pi * R * R / (12 if r == 0 else 60 * 4 ** (r - 1))
        got = a5.cell_area(r)
        if abs(got / want - 1) > 1e-12:
            raise Violation("cell_area_value", {"res": r}, observed=got, expected=want)
        ctx.col.bulk(1, 1, cls="cell_area_value", sample={"res": r})


def judge(case, col):
    a5 = _a5()
    if "res" in case and "cell" not in case and "lon" not in case:
        return stage_meta(type("C", (), {"col": col})())
    if "cell" in case:
        return judge_cell(int(case["cell"], 16), col, "hyp")
    cell = guarded(a5.lonlat_to_cell, (case["lon"], case["lat"]), case["res"], kind="lonlat_to_cell_raised", case=case)
    judge_cell(cell, col, "branch_boundary" if case.get("src") == "boundary" else "hyp")


def cases():
    by_id = gens.cell_ids(4, 29).map(lambda c: {"cell": hex(c)})
    by_loc = st.builds(lambda p, r: {"lon": p["lon"], "lat": p["lat"], "res": r}, gens.pts_base(), gens.resolutions(4, 29))
    by_edge = gens.edge_scaled_cases(4, 29).map(lambda c: {"lon": c["lon"], "lat": c["lat"], "res": c["res"]})
    return st.one_of(by_id, by_loc, by_edge)


def stage_hyp(ctx):
    hyp_drive(ctx, cases(), judge, 150 if ctx.tier == "quick" else 5000)


def stage_boundary(ctx):
    """Cells straddling the places where the projection code's own branches flip (lib/boundary.py)."""
    from lib import boundary
    anc = boundary.anchors(ctx, "proj", 120 if ctx.tier == "quick" else 600) + boundary.anchors(ctx, "cell", 60 if ctx.tier == "quick" else 300, per_type=2)
    if not anc:
        ctx.col.count("boundary_stage_skipped")
        return
    strat = st.builds(lambda a, r: {"lon": a["lon"], "lat": a["lat"], "res": r, "src": "boundary"},
                      st.sampled_from(anc), st.sampled_from([8, 14, 20, 23, 24, 25, 26, 27, 28, 29]))
    hyp_drive(ctx, strat, judge, 60 if ctx.tier == "quick" else 1500)


_NODES = []


def _series_nodes():
    """Geodetic latitudes (degrees) at which the harmonics sin(2k*lat) of a latitude series vanish or peak: multiples of
    7.5 degrees of geodetic latitude and of authalic latitude (the latter through the closed form of refgeo)."""
    if not _NODES:
        for k in range(-11, 12):
            _NODES.append(7.5 * k)
            tha = math.radians(90.0 - 7.5 * k)                       # authalic colatitude
            _NODES.append(90.0 - math.degrees(refgeo.geod_colat_from_auth_colat(tha)))
    return _NODES


def judge_fine(case, col):
    """The ring at a very large explicit segment count must enclose the equal share as well: |A(k)/ideal - 1| <=
    tol(res) + 0.02/k^2, k = 1000 and 3001 (arithmetic that accumulates along an edge degrades with k instead of
    converging)."""
    a5 = _a5()
    cell = int(case["cell"], 16)
    res = refids.res_of(cell)
    ideal = 4 * math.pi / refids.ncells(res)
    centre = guarded(a5.cell_to_lonlat, cell, kind="cell_to_lonlat_raised", case=case)
    TOL = tol(res)
    for k in case.get("ks", (1000, 3001)):
        e = refgeo.ring_area(_ring(cell, k, case), res, centre) / ideal - 1
        col.measure("fine_ring_area_rel_err", abs(e), {"cell": case["cell"], "k": k})
        if abs(e) > TOL + 0.02 / (k * k):
            raise Violation("cell_area_differs_from_equal_share", dict(case, fine=True), observed=f"ring of {k} segments per edge: relative error {e:.3e}",
                            expected=f"|error| <= {TOL:.2e} + 0.02/k^2")
    col.case({"cell": case["cell"], "fine": True}, nontrivial=True, classes=["fine_ring", f"res{res:02d}"])


def stage_fine_rings(ctx):
    strat = st.builds(lambda t: {"cell": hex(refids.enc(*t)), "fine": True}, gens.cell_tuple(20, 29))
    deep = st.builds(lambda t: {"cell": hex(refids.enc(*t)), "fine": True}, gens.cell_tuple(27, 29))
    hyp_drive(ctx, st.one_of(strat, deep, deep), judge_fine, 5 if ctx.tier == "quick" else 120)


def stage_series_nodes(ctx):
    """Deep cells on and next to the latitudes where terms of a trigonometric latitude series change sign: a series that
    is truncated, reordered or summed differently shows its largest relative change there, in bands far thinner than
    anything a latitude-uniform generator resolves."""
    unit = st.floats(0, 1, allow_nan=False)

    def mk(i, lon, u, side, exact, r):
        lat = _series_nodes()[i]
        if not exact:
            lat += (1 if side else -1) * 10.0 ** (-11 + 7 * u)
        return {"lon": lon, "lat": max(-90.0, min(90.0, lat)), "res": r, "src": "series_node"}
    strat = st.builds(mk, st.integers(0, 45), st.floats(-180, 180, allow_nan=False), unit, st.booleans(), st.booleans(),
                      st.sampled_from([18, 20, 22, 23, 24, 25, 26, 27, 28, 29]))
    hyp_drive(ctx, strat, judge, 40 if ctx.tier == "quick" else 1500)


def plan(tier):
    return [Stage("enum", 16, stage_enum, cost=8), Stage("meta", 1, stage_meta), Stage("hyp", 16, stage_hyp, cost=8),
            Stage("boundary", 16, stage_boundary, cost=7), Stage("series_nodes", 16, stage_series_nodes, cost=6),
            Stage("fine_rings", 16, stage_fine_rings, cost=6)]


def replay(rec, col):
    if rec["case"].get("fine"):
        return judge_fine(rec["case"], col)
    judge(rec["case"], col)
