"""C01 — the cell returned for a point contains that point (DESIGN.md §6 C01)."""
import math

from hypothesis import strategies as st

from lib import gens, refgeo
from lib.runner import Stage, Violation, hyp_drive, guarded, HarnessError

RULE = ("(point, resolution) pairs: points from a mixture (uniform sphere, log-scale polar caps, exact poles, the 62 "
        "dodecahedron frame points and their 1e-12..1e-1 rad neighbourhoods, antimeridian, +-360 wrapped longitudes in "
        "[-540,540], corner/edge huggers aimed with the library's own ring), resolutions 0..29 weighted to 0-2 and 26-29. "
        "Oracle: independent spherical point-in-ring test on cell_to_boundary(cell,{segments:8->64}) with tolerance "
        "T(k,r)=0.05/k^2+2e-3/k+1e-14/L(r) cell widths. Non-trivial = within 0.25 cell widths of an edge, or colatitude<10deg, "
        "or within 1e-3 rad of a frame point, or |lon|>180; distinct by (lon,lat,res). Further stages: points around places where "
        "lonlat_to_cell's own branches flip (coverage-directed, lib/boundary.py); a dense res-0 sweep along all 30 face edges "
        "(2500/16000 positions x 14 offsets 3e-9..1e-3 rad) judged exactly by nearest face centre; 90 points just inside the "
        "five edges of each generated cell (latitude-uniform and adversarial bases).")
ASSUMPTIONS = ["the k=64 ring follows the true curved edge to 4.3e-5 cell widths (7.6x the worst deviation measured)",
               "points closer than that to an edge may legitimately be given to either cell (edge_ambiguous, counted)"]
REQUIRED_CLASSES = {"nontrivial:near_edge": ("judged_point", 0.05), "nontrivial:polar": ("judged_point", 0.05), "nontrivial:frame": ("judged_point", 0.03)}


def _a5():
    import a5
    return a5


def contains(p, cell, res, col=None):
    """-> ('in'|'ambiguous'|'out', margin in cell widths (negative = outside))."""
    a5 = _a5()
    L = refgeo.cell_width(res)
    ring = a5.cell_to_boundary(cell, {"segments": 8, "closed_ring": False})
    inside, margin, _ = refgeo.ring_margin(p, ring)
    m = margin / L
    t8 = refgeo.edge_tol(8, res)
    if m > t8:
        return ("in" if inside else "out", m if inside else -m)
    ring = a5.cell_to_boundary(cell, {"segments": 64, "closed_ring": False})
    inside, margin, _ = refgeo.ring_margin(p, ring)
    m = margin / L
    if inside:
        return ("in", m)
    if m > refgeo.edge_tol(64, res):
        return ("out", -m)
    return ("ambiguous", -m)


def hug_point(case):
    """Derive a corner/edge hugging point from a base point using the library's ring (aim only)."""
    a5 = _a5()
    base = (case["lon"], case["lat"])
    res = case["res"]
    h = case["hug"]
    try:
        cell = a5.lonlat_to_cell(base, res)
        ring = a5.cell_to_boundary(cell, {"segments": 1, "closed_ring": False})
        centre = a5.cell_to_lonlat(cell)
    except Exception as e:  # noqa: BLE001
        raise Violation("raised_while_aiming", case, observed=f"{type(e).__name__}: {e}", expected="no exception")
    n = len(ring)
    i = h["i"] % n
    a = ring[i]
    if h["kind"] == "edge":
        b = ring[(i + 1) % n]
        a = refgeo.toward(a, b, h["t"])
    return refgeo.toward(a, centre, h["f"])


def judge(case, col):
    a5 = _a5()
    res = case["res"]
    cls = [case.get("cls", "replay")]
    if case.get("hug"):
        p = hug_point(case)
        cls = ["hug_" + case["hug"]["kind"]]
        case = {"lon": p[0], "lat": p[1], "res": res, "cls": cls[0]}
    p = (case["lon"], case["lat"])
    cell = guarded(a5.lonlat_to_cell, p, res, kind="lonlat_to_cell_raised", case=case)
    r2 = a5.get_resolution(cell)
    if r2 != res:
        raise Violation("wrong_resolution", case, observed=r2, expected=res)
    verdict, m = contains(p, cell, res)
    L = refgeo.cell_width(res)
    if verdict == "out":
        raise Violation("point_outside_returned_cell", case, observed=f"outside by {-m:.3g} cell widths (cell {hex(cell)})",
                        expected=f"inside, or outside by <= {refgeo.edge_tol(64, res):.2g} cell widths")
    if verdict == "ambiguous":
        col.count("edge_ambiguous")
    col.measure("min_margin_cellwidths", m, case, mode="min")
    # classification
    nt = []
    if m < 0.25:
        nt.append("nontrivial:near_edge")
    colat = 90.0 - abs(case["lat"])
    if colat < 10.0:
        nt.append("nontrivial:polar")
    if abs(case["lon"]) > 180.0:
        nt.append("nontrivial:wrapped")
    if refgeo.nearest_frame(p)[0] < 1e-3:
        nt.append("nontrivial:frame")
    col.case({"lon": case["lon"], "lat": case["lat"], "res": res}, nontrivial=bool(nt),
             classes=["judged_point"] + cls + nt + [f"res{res:02d}"])


def cases():
    plain = st.builds(lambda p, r: {"lon": p["lon"], "lat": p["lat"], "res": r, "cls": p["cls"]},
                      gens.points(), gens.resolutions(0, 29))
    hug = st.builds(
        lambda p, r, kind, i, t, u: {"lon": p["lon"], "lat": p["lat"], "res": r, "cls": p["cls"],
                                     "hug": {"kind": kind, "i": i, "t": t, "f": 10.0 ** (-6 + 4.5 * u)}},
        gens.pts_base(), gens.resolutions(0, 29), st.sampled_from(["corner", "edge"]), st.integers(0, 4),
        st.floats(0.0, 1.0, allow_nan=False), st.floats(0.0, 1.0, allow_nan=False))
    return st.one_of(plain, plain, hug, gens.edge_scaled_cases(2, 29))


def stage_hyp(ctx):
    n = 1200 if ctx.tier == "quick" else 40000
    hyp_drive(ctx, cases(), judge, n)


def stage_boundary(ctx):
    """Points at log-scale distances from the places where lonlat_to_cell's own branches flip, plain and as
    corner/edge huggers (lib/boundary.py)."""
    from lib import boundary
    anc = boundary.anchors(ctx, "cell", 150 if ctx.tier == "quick" else 800) + boundary.anchors(ctx, "proj", 60 if ctx.tier == "quick" else 300, per_type=2)
    if not anc:
        ctx.col.count("boundary_stage_skipped")
        return
    pts = boundary.anchor_points(anc)
    plain = st.builds(lambda p, r: {"lon": p["lon"], "lat": p["lat"], "res": r, "cls": p["cls"]}, pts, gens.resolutions(0, 29))
    hug = st.builds(
        lambda p, r, kind, i, t, u: {"lon": p["lon"], "lat": p["lat"], "res": r, "cls": p["cls"],
                                     "hug": {"kind": kind, "i": i, "t": t, "f": 10.0 ** (-6 + 4.5 * u)}},
        pts, gens.resolutions(0, 29), st.sampled_from(["corner", "edge"]), st.integers(0, 4),
        st.floats(0.0, 1.0, allow_nan=False), st.floats(0.0, 1.0, allow_nan=False))
    hyp_drive(ctx, st.one_of(plain, hug), judge, 400 if ctx.tier == "quick" else 15000)


# ---- dense sweep of the face-assignment boundaries (res 0), exact oracle ------------------------------------------
_FACE = {}


def _face_table():
    """library face id -> index into refgeo.FACE_CENTRES (from the centres the library reports for its res-0 cells)."""
    if not _FACE:
        a5 = _a5()
        from lib import refids
        for f in range(12):
            c = a5.cell_to_lonlat(refids.enc(0, f))
            v = refgeo.lonlat_to_frame(c)
            _FACE[f] = max(range(12), key=lambda i: refgeo._dot(v, refgeo.FACE_CENTRES[i]))
        if len(set(_FACE.values())) != 12:
            raise HarnessError("cannot match library faces to the reference frame")
    return _FACE


def judge_face(case, col=None):
    """res 0: the face pentagons are bounded by great circles (bisectors of adjacent face centres), so the cell
    containing p is exactly the face with the nearest centre; ties within 1e-9 rad may go either way."""
    a5 = _a5()
    from lib import refids
    p = (case["lon"], case["lat"])
    cell = guarded(a5.lonlat_to_cell, p, 0, kind="lonlat_to_cell_raised", case=case)
    d = refids.dec(cell)
    if d is None or d[0] != 0:
        raise Violation("wrong_resolution", case, observed=hex(cell), expected="a res-0 cell")
    got = _face_table()[d[1]]
    v = refgeo.lonlat_to_frame(p)
    dots = sorted(((refgeo._dot(v, c), i) for i, c in enumerate(refgeo.FACE_CENTRES)), reverse=True)
    if got == dots[0][1]:
        return 0.0
    # angular distance of p to the bisector between the nearest face and the returned one
    cg = refgeo.FACE_CENTRES[got]
    cn = refgeo.FACE_CENTRES[dots[0][1]]
    n = refgeo._norm(tuple(cn[i] - cg[i] for i in range(3)))
    off = abs(math.asin(max(-1.0, min(1.0, refgeo._dot(v, n)))))
    if off > 1e-9:
        raise Violation("point_outside_returned_face", case, observed=f"{off:.3e} rad beyond the edge of face cell {hex(cell)}",
                        expected="the face whose centre is nearest (ties within 1e-9 rad either way)")
    return off


def stage_faces(ctx):
    from lib import gens as _g
    N = 2500 if ctx.tier == "quick" else 16000
    offsets = [s * d for d in (3e-9, 1e-7, 1e-6, 1e-5, 3e-5, 1e-4, 1e-3) for s in (1, -1)]
    edges = _g._EDGES
    n = 0
    for e in range(len(edges))[ctx.shard::ctx.nshards]:
        a, b = edges[e]
        nrm = refgeo._norm(refgeo._cross(a, b))
        # a different grid phase on every edge (symmetric defects sit at the same place on many edges)
        phase = (ctx.seed * 0.6180339887498949 + e * 0.3819660112501051 + 0.137) % 1.0
        for i in range(N):
            base = refgeo.slerp_vec(a, b, (i + phase) / N)
            for d in offsets:
                v = refgeo._norm(tuple(base[k] + d * nrm[k] for k in range(3)))
                lon, lat = refgeo.frame_to_lonlat(v)
                judge_face({"lon": lon, "lat": lat, "res": 0, "exact_face": True})
                n += 1
    ctx.col.bulk(n, n, cls="face_edge_sweep_res0", sample={"lon": lon, "lat": lat, "res": 0, "exact_face": True})
    ctx.col.notes.append(f"face sweep: {N} positions per edge x {len(offsets)} offsets (3e-9..1e-3 rad both sides; ties within 1e-9 rad accepted)")


# ---- many points just inside every edge of a cell ------------------------------------------------------------------

def judge_edges(case, col):
    a5 = _a5()
    res = case["res"]
    base = (case["lon"], case["lat"])
    cell = guarded(a5.lonlat_to_cell, base, res, kind="lonlat_to_cell_raised", case=case)
    ring = guarded(a5.cell_to_boundary, cell, {"segments": 32, "closed_ring": True}, kind="cell_to_boundary_raised", case=case)
    centre = guarded(a5.cell_to_lonlat, cell, kind="cell_to_lonlat_raised", case=case)
    L = refgeo.cell_width(res)
    nv = (len(ring) - 1) // 32
    pts = 0
    for e in range(nv):
        for s in (1, 2, 4, 8, 16, 24, 28, 30, 31):          # 3 %, 6 %, 12 %, 25 %, 50 % ... 97 % along the edge
            q = ring[32 * e + s]
            dist = refgeo.gc_dist(q, centre)
            if dist <= 0:
                continue
            for depth in (0.004, 0.015):
                p = refgeo.toward(q, centre, depth * L / dist)
                sub = {"lon": p[0], "lat": p[1], "res": res, "cls": "edge_dense"}
                got = guarded(a5.lonlat_to_cell, p, res, kind="lonlat_to_cell_raised", case=sub)
                pts += 1
                if got != cell:
                    # p was built strictly inside `cell`; another answer is acceptable only if it contains p as well
                    verdict, m = contains(p, got, res)
                    if verdict == "out":
                        raise Violation("point_outside_returned_cell", sub, observed=f"outside by {-m:.3g} cell widths (cell {hex(got)}; built {depth} widths inside {hex(cell)})",
                                        expected="a cell containing the point")
                    col.count("edge_dense_other_cell_also_contains")
    # the corners themselves: points 0.15 % and 0.4 % of a cell width inside each vertex
    for e in range(nv):
        q = ring[32 * e]
        dist = refgeo.gc_dist(q, centre)
        if dist <= 0:
            continue
        for depth in (0.0015, 0.004):
            p = refgeo.toward(q, centre, depth * L / dist)
            sub = {"lon": p[0], "lat": p[1], "res": res, "cls": "edge_dense"}
            got = guarded(a5.lonlat_to_cell, p, res, kind="lonlat_to_cell_raised", case=sub)
            pts += 1
            if got != cell:
                verdict, m = contains(p, got, res)
                if verdict == "out":
                    raise Violation("point_outside_returned_cell", sub, observed=f"outside by {-m:.3g} cell widths (cell {hex(got)}; built {depth} widths inside a vertex of {hex(cell)})",
                                    expected="a cell containing the point")
                col.count("edge_dense_other_cell_also_contains")
    col.count("edge_dense_points", pts)
    colat = 90.0 - abs(case["lat"])
    col.case({"lon": case["lon"], "lat": case["lat"], "res": res}, nontrivial=True,
             classes=["edge_dense_cell", f"res{res:02d}"] + (["nontrivial:polar"] if colat < 10 else []))


def stage_edges(ctx):
    lat_uniform = st.builds(lambda lon, lat: {"lon": lon, "lat": lat, "cls": "lat_uniform"},
                            st.floats(-180, 180, allow_nan=False), st.floats(-90, 90, allow_nan=False))
    base = st.one_of(lat_uniform, lat_uniform, gens.pts_base())
    strat = st.builds(lambda p, r: {"lon": p["lon"], "lat": p["lat"], "res": r, "edges": True}, base, gens.resolutions(2, 29))
    hyp_drive(ctx, strat, judge_edges, 120 if ctx.tier == "quick" else 2500)


def plan(tier):
    return [Stage("hyp", 16, stage_hyp, cost=5), Stage("boundary", 16, stage_boundary, cost=5),
            Stage("faces", 15, stage_faces, cost=6), Stage("edges", 16, stage_edges, cost=6)]


def replay(rec, col):
    case = rec["case"]
    if case.get("exact_face"):
        return judge_face(case, col)
    if case.get("edges"):
        return judge_edges(case, col)
    judge(case, col)
