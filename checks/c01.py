"""C01 — the cell returned for a point contains that point (DESIGN.md §6 C01)."""
import math

from hypothesis import strategies as st

from lib import gens, refgeo
from lib.runner import Stage, Violation, hyp_drive, guarded

RULE = ("(point, resolution) pairs: points from a mixture (uniform sphere, log-scale polar caps, exact poles, the 62 "
        "dodecahedron frame points and their 1e-12..1e-1 rad neighbourhoods, antimeridian, +-360 wrapped longitudes in "
        "[-540,540], corner/edge huggers aimed with the library's own ring), resolutions 0..29 weighted to 0-2 and 26-29. "
        "Oracle: independent spherical point-in-ring test on cell_to_boundary(cell,{segments:8->64}) with tolerance "
        "T(k,r)=0.05/k^2+2e-3/k+1e-14/L(r) cell widths. Non-trivial = within 0.25 cell widths of an edge, or colatitude<10deg, "
        "or within 1e-3 rad of a frame point, or |lon|>180; distinct by (lon,lat,res).")
ASSUMPTIONS = ["the k=64 ring follows the true curved edge to 4.3e-5 cell widths (7.6x the worst deviation measured)",
               "points closer than that to an edge may legitimately be given to either cell (edge_ambiguous, counted)"]
REQUIRED_CLASSES = {"nontrivial:near_edge": (None, 0.05), "nontrivial:polar": (None, 0.05), "nontrivial:frame": (None, 0.03)}


def _a5():
    import a5
    return a5


def contains(p, cell, res, col=None):
    """-> ('in'|'ambiguous'|'out', margin in cell widths (negative = outside))."""
    a5 = _a5()
    L = refgeo.cell_width(res)
    ring = a5.cell_to_boundary(cell, {"segments": 8, "closed_ring": False})
    inside, margin, _ = refgeo.ring_margin(p, ring)
    m = margin / L
    t8 = refgeo.edge_tol(8, res)
    if m > t8:
        return ("in" if inside else "out", m if inside else -m)
    ring = a5.cell_to_boundary(cell, {"segments": 64, "closed_ring": False})
    inside, margin, _ = refgeo.ring_margin(p, ring)
    m = margin / L
    if inside:
        return ("in", m)
    if m > refgeo.edge_tol(64, res):
        return ("out", -m)
    return ("ambiguous", -m)


def hug_point(case):
    """Derive a corner/edge hugging point from a base point using the library's ring (aim only)."""
    a5 = _a5()
    base = (case["lon"], case["lat"])
    res = case["res"]
    h = case["hug"]
    try:
        cell = a5.lonlat_to_cell(base, res)
        ring = a5.cell_to_boundary(cell, {"segments": 1, "closed_ring": False})
        centre = a5.cell_to_lonlat(cell)
    except Exception as e:  # noqa: BLE001
        raise Violation("raised_while_aiming", case, observed=f"{type(e).__name__}: {e}", expected="no exception")
    n = len(ring)
    i = h["i"] % n
    a = ring[i]
    if h["kind"] == "edge":
        b = ring[(i + 1) % n]
        a = refgeo.toward(a, b, h["t"])
    return refgeo.toward(a, centre, h["f"])


def judge(case, col):
    a5 = _a5()
    res = case["res"]
    cls = [case.get("cls", "replay")]
    if case.get("hug"):
        p = hug_point(case)
        cls = ["hug_" + case["hug"]["kind"]]
        case = {"lon": p[0], "lat": p[1], "res": res, "cls": cls[0]}
    p = (case["lon"], case["lat"])
    cell = guarded(a5.lonlat_to_cell, p, res, kind="lonlat_to_cell_raised", case=case)
    r2 = a5.get_resolution(cell)
    if r2 != res:
        raise Violation("wrong_resolution", case, observed=r2, expected=res)
    verdict, m = contains(p, cell, res)
    L = refgeo.cell_width(res)
    if verdict == "out":
        raise Violation("point_outside_returned_cell", case, observed=f"outside by {-m:.3g} cell widths (cell {hex(cell)})",
                        expected=f"inside, or outside by <= {refgeo.edge_tol(64, res):.2g} cell widths")
    if verdict == "ambiguous":
        col.count("edge_ambiguous")
    col.measure("min_margin_cellwidths", m, case, mode="min")
    # classification
    nt = []
    if m < 0.25:
        nt.append("nontrivial:near_edge")
    colat = 90.0 - abs(case["lat"])
    if colat < 10.0:
        nt.append("nontrivial:polar")
    if abs(case["lon"]) > 180.0:
        nt.append("nontrivial:wrapped")
    if refgeo.nearest_frame(p)[0] < 1e-3:
        nt.append("nontrivial:frame")
    col.case({"lon": case["lon"], "lat": case["lat"], "res": res}, nontrivial=bool(nt),
             classes=cls + nt + [f"res{res:02d}"])


def cases():
    plain = st.builds(lambda p, r: {"lon": p["lon"], "lat": p["lat"], "res": r, "cls": p["cls"]},
                      gens.points(), gens.resolutions(0, 29))
    hug = st.builds(
        lambda p, r, kind, i, t, u: {"lon": p["lon"], "lat": p["lat"], "res": r, "cls": p["cls"],
                                     "hug": {"kind": kind, "i": i, "t": t, "f": 10.0 ** (-6 + 4.5 * u)}},
        gens.pts_base(), gens.resolutions(0, 29), st.sampled_from(["corner", "edge"]), st.integers(0, 4),
        st.floats(0.0, 1.0, allow_nan=False), st.floats(0.0, 1.0, allow_nan=False))
    return st.one_of(plain, plain, hug)


def stage_hyp(ctx):
    n = 1200 if ctx.tier == "quick" else 40000
    hyp_drive(ctx, cases(), judge, n)


def plan(tier):
    return [Stage("hyp", 16, stage_hyp, cost=5)]


def replay(rec, col):
    judge(rec["case"], col)
