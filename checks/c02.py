"""C02 — a cell's centre maps back to the same cell (DESIGN.md §6 C02)."""
from hypothesis import strategies as st

from lib import gens, refgeo, refids
from lib.runner import Stage, Violation, hyp_drive, guarded
from checks.c01 import contains

RULE = ("valid cell ids: every cell of res 0..5 (quick) / 0..7 (thorough, 327,672 cells) by enumeration; res 6..29 by id "
        "construction with structured S (all-0, all-3, 0333../1000.., alternating, single digit, random) and by location "
        "(cells found at poles, frame points, antimeridian); blocks of 16 sibling cells next to all 30 face edges at res 14..19 (60/2500 positions per edge). Oracle: cell_to_lonlat in [-180,180]x[-90,90] (exact), centre "
        "strictly inside own ring (independent point-in-ring), lonlat_to_cell(centre,res)==cell. Every case is a distinct "
        "cell; non-trivial = all except res<2.")
ASSUMPTIONS = ["ring at 8 (then 64) segments per edge stands for the true boundary, tolerance as in C01"]
REQUIRED_CLASSES = {"east_of_87E": (None, 0.05), "deep_res>=22": ("by_id", 0.1)}


def _a5():
    import a5
    return a5


def judge_cell(cell, col, cls, enumerated=False):
    a5 = _a5()
    case = {"cell": hex(cell)}
    res = refids.res_of(cell)
    c = guarded(a5.cell_to_lonlat, cell, kind="cell_to_lonlat_raised", case=case)
    lon, lat = c
    if not (-180.0 <= lon <= 180.0) or not (-90.0 <= lat <= 90.0):
        raise Violation("centre_out_of_range", case, observed=(lon, lat), expected="lon in [-180,180], lat in [-90,90]")
    verdict, m = contains((lon, lat), cell, res)
    if verdict != "in":
        raise Violation("centre_not_strictly_inside_own_ring", case, observed=f"{verdict}, margin {m:.3g} cell widths", expected="inside")
    col.measure("min_centre_margin_cellwidths", m, case, mode="min")
    back = guarded(a5.lonlat_to_cell, (lon, lat), res, kind="lonlat_to_cell_raised", case=case)
    if back != cell:
        raise Violation("centre_maps_to_other_cell", case, observed=hex(back), expected=hex(cell))
    classes = list(cls) + [f"res{res:02d}"]
    if 87.0 < lon <= 180.0:
        classes.append("east_of_87E")
    if abs(lat) > 80.0:
        classes.append("polar")
    if res >= 22:
        classes.append("deep_res>=22")
    col.case(case, nontrivial=res >= 2, classes=classes, enumerated=enumerated)


def stage_enum(ctx):
    a5 = _a5()
    maxres = 5 if ctx.tier == "quick" else 7
    for res in range(0, maxres + 1):
        cells = refids.children(0, res)
        for cell in cells[ctx.shard::ctx.nshards]:
            judge_cell(cell, ctx.col, ("enum",), enumerated=True)
    ctx.col.exhaustive[f"all cells res<={maxres}"] = True


def judge(case, col):
    a5 = _a5()
    if "cell" in case:
        cell = int(case["cell"], 16)
        return judge_cell(cell, col, ("by_id",))
    p = (case["lon"], case["lat"])
    cell = guarded(a5.lonlat_to_cell, p, case["res"], kind="lonlat_to_cell_raised", case=case)
    judge_cell(cell, col, ("by_location", "loc_" + case.get("cls", "")))


def cases():
    by_id = gens.cell_ids(6, 29).map(lambda c: {"cell": hex(c)})
    by_loc = st.builds(lambda p, r: {"lon": p["lon"], "lat": p["lat"], "res": r, "cls": p["cls"]},
                       gens.pts_base(), gens.resolutions(2, 29))
    return st.one_of(by_id, by_loc, gens.edge_scaled_cases(2, 29))


def stage_hyp(ctx):
    n = 800 if ctx.tier == "quick" else 20000
    hyp_drive(ctx, cases(), judge, n)


def stage_face_axes(ctx):
    """Deep cells on the rays of azimuth m*18 degrees of every face's own plane coordinates (gens.pts_face_axes): the
    centre's polar and Cartesian forms disagree first there, and only the last resolutions resolve it."""
    strat = st.builds(lambda p, r: {"lon": p["lon"], "lat": p["lat"], "res": r, "cls": p["cls"]},
                      gens.pts_face_axes(), st.sampled_from([22, 25, 26, 27, 27, 28, 28, 28, 29, 29, 29, 29]))
    hyp_drive(ctx, strat, judge, 800 if ctx.tier == "quick" else 8000)


def stage_boundary(ctx):
    """Cells containing the places where the library's own branches flip (lib/boundary.py)."""
    from lib import boundary
    anc = boundary.anchors(ctx, "cell", 100 if ctx.tier == "quick" else 500) + boundary.anchors(ctx, "proj", 100 if ctx.tier == "quick" else 500)
    if not anc:
        ctx.col.count("boundary_stage_skipped")
        return
    strat = st.builds(lambda p, r: {"lon": p["lon"], "lat": p["lat"], "res": r, "cls": p["cls"]}, boundary.anchor_points(anc), gens.resolutions(2, 29))
    hyp_drive(ctx, strat, judge, 150 if ctx.tier == "quick" else 6000)


def stage_edge_blocks(ctx):
    """Blocks of 16 sibling cells found next to the dodecahedron's face edges (where the face decision is made) at
    res 14..19, every cell judged; positions on a per-edge phased grid along all 30 edges."""
    import math
    a5 = _a5()
    N = 60 if ctx.tier == "quick" else 2500
    edges = gens._EDGES
    for e in range(len(edges))[ctx.shard::ctx.nshards]:
        a, b = edges[e]
        nrm = refgeo._norm(refgeo._cross(a, b))
        phase = (ctx.seed * 0.6180339887498949 + e * 0.3819660112501051 + 0.29) % 1.0
        for i in range(N):
            base = refgeo.slerp_vec(a, b, (i + phase) / N)
            res = 14 + (i + e) % 6
            d = (1 if (i + e) % 2 else -1) * 1.2 * refgeo.cell_width(res)
            v = refgeo._norm(tuple(base[k] + d * nrm[k] for k in range(3)))
            lon, lat = refgeo.frame_to_lonlat(v)
            case = {"lon": lon, "lat": lat, "res": res}
            c0 = guarded(a5.lonlat_to_cell, (lon, lat), res, kind="lonlat_to_cell_raised", case=case)
            for c in refids.children(refids.parent(c0, res - 2), res):
                judge_cell(c, ctx.col, ("edge_block",), enumerated=True)


def plan(tier):
    return [Stage("enum", 16, stage_enum, cost=10), Stage("hyp", 16, stage_hyp, cost=5), Stage("boundary", 16, stage_boundary, cost=4), Stage("edge_blocks", 15, stage_edge_blocks, cost=6),
            Stage("face_axes", 16, stage_face_axes, cost=4)]


def replay(rec, col):
    judge(rec["case"], col)
