"""C13 — dodecahedral projection and its inverse are mutual inverses on every face (DESIGN.md §6 C13)."""
import math

from hypothesis import strategies as st

from lib import refgeo
from lib.runner import Stage, Violation, hyp_drive, guarded, HarnessError

RULE = ("sphere->plane->sphere: unit vectors (uniform; 1e-12..1e-1 rad neighbourhoods of the 62 frame points; points at "
        "log-scale distance from seam great circles and face edges) through the nearest face F and the face G across the "
        "nearest edge; plane->sphere->plane: face-plane points in pentagon U mirror-triangle k (convex hexagon), uniform and "
        "log-pulled to its vertices, the origin, edge midpoints and seam rays, faces 0..11. Oracle: round-trip error <= 1e-11 "
        "(angle by atan2(|axb|, a.b); planar distance). Non-trivial = within 1e-3 rad of a frame point/seam/edge, or through "
        "the adjacent face, or plane point in a mirror triangle; distinct by hash of the input.")
ASSUMPTIONS = ["inputs are handed to the library as (theta, phi) computed by the harness with atan2",
               "face-plane geometry (inradius (sqrt5-1)/2, circumradius 3-sqrt5, edge midpoints at gamma = 72deg*i) is the published A5 face layout"]
TOL = 1e-11
REQUIRED_CLASSES = {"s2p:adjacent_face": ("s2p", 0.5), "p2s:mirror_triangle": ("p2s", 0.05), "s2p:near_frame": ("s2p", 0.1)}

D_EDGE = (math.sqrt(5) - 1) / 2
D_VERT = 3 - math.sqrt(5)

_state = {}


def _lib():
    if not _state:
        from a5.projections.dodecahedron import DodecahedronProjection
        from a5.core.origin import origins
        proj = DodecahedronProjection()
        axes = []
        for o in origins:
            th, ph = o.axis
            axes.append((math.sin(ph) * math.cos(th), math.sin(ph) * math.sin(th), math.cos(ph)))
        _state.update(proj=proj, axes=axes, origins=origins)
    return _state["proj"], _state["axes"]


_BUF = [0.0, 0.0]
_QBUF = [0.0, 0.0]


def _angle(a, b):
    c = refgeo._cross(a, b)
    return math.atan2(math.sqrt(refgeo._dot(c, c)), refgeo._dot(a, b))


def _to_sph(v):
    return (math.atan2(v[1], v[0]), math.atan2(math.hypot(v[0], v[1]), v[2]))


def _to_vec(s):
    th, ph = s
    return (math.sin(ph) * math.cos(th), math.sin(ph) * math.sin(th), math.cos(ph))


def faces_by_distance(v):
    proj, axes = _lib()
    d = sorted(((-refgeo._dot(v, a), i) for i, a in enumerate(axes)))
    return d[0][1], d[1][1]


def judge_s2p(case, col):
    proj, axes = _lib()
    v = refgeo._norm(tuple(case["v"]))
    F, G = faces_by_distance(v)
    sp = _to_sph(v)
    classes = ["s2p", "s2p:" + case.get("cls", "replay")]
    nt = False
    df = min(_angle(v, f) for f in refgeo.FRAME)
    if df < 1e-3:
        classes.append("s2p:near_frame")
        nt = True
    if case.get("cls") in ("seam", "edge"):
        nt = True
    use_buf = case.get("buf", (hash(tuple(case["v"])) & 1) == 0)
    for face, tag in ((F, "nearest_face"), (G, "adjacent_face")):
        if use_buf:
            # a caller recycling one coordinate buffer: same list object, overwritten in place for every point
            # (first a different point through the same face, so that the case does not depend on earlier cases)
            _BUF[0], _BUF[1] = sp[0] + 0.01, min(math.pi, sp[1] + 0.003)
            try:
                proj.forward(_BUF, face)
            except Exception:  # noqa: BLE001 - the priming point is not the case under judgement
                pass
            _BUF[0], _BUF[1] = sp[0], sp[1]
            arg = _BUF
        else:
            arg = sp
        xy = guarded(proj.forward, arg, face, kind="forward_raised", case=case)
        if use_buf and (_BUF[0] != sp[0] or _BUF[1] != sp[1]):
            raise Violation("argument_modified", case, observed=list(_BUF), expected=list(sp))
        back = guarded(proj.inverse, xy, face, kind="inverse_raised", case=case)
        err = _angle(v, _to_vec(back))
        col.measure(f"s2p_err_{tag}", err, case)
        if not (err <= TOL):
            raise Violation(f"sphere_plane_sphere_{tag}", case, observed=f"{err:.3e} rad via face {face}", expected=f"<= {TOL}")
    classes.append("s2p:adjacent_face")
    col.case(case, nontrivial=True, classes=classes)   # non-trivial by rule: every case also goes through the adjacent face


def hexagon(k):
    """Vertices of pentagon U mirror triangle k (convex), counter-clockwise."""
    pts = []
    for i in range(5):
        if i == k:
            pts.append((2 * D_EDGE * math.cos(math.radians(72 * k)), 2 * D_EDGE * math.sin(math.radians(72 * k))))
        a = math.radians(36 + 72 * i)
        pts.append((D_VERT * math.cos(a), D_VERT * math.sin(a)))
    return pts


def in_pentagon(q):
    for i in range(5):
        a = math.radians(72 * i)
        if q[0] * math.cos(a) + q[1] * math.sin(a) > D_EDGE:
            return False
    return True


def judge_p2s(case, col):
    proj, axes = _lib()
    q = tuple(case["q"])
    face = case["face"]
    if (hash(q) & 1) == 0:
        _QBUF[0], _QBUF[1] = q[0], q[1]
        sp = guarded(proj.inverse, _QBUF, face, kind="inverse_raised", case=case)
    else:
        sp = guarded(proj.inverse, q, face, kind="inverse_raised", case=case)
    back = guarded(proj.forward, sp, face, kind="forward_raised", case=case)
    err = math.hypot(back[0] - q[0], back[1] - q[1])
    col.measure("p2s_err", err, case)
    if not (err <= TOL):
        raise Violation("plane_sphere_plane", case, observed=f"{err:.3e}", expected=f"<= {TOL}")
    mirror = not in_pentagon(q)
    classes = ["p2s", "p2s:" + case.get("cls", "replay")] + (["p2s:mirror_triangle"] if mirror else [])
    col.case(case, nontrivial=mirror or case.get("cls") != "uniform", classes=classes)


def judge(case, col):
    if case["t"] == "s2p":
        return judge_s2p(case, col)
    return judge_p2s(case, col)


# ---- generators -------------------------------------------------------------------------------
_unit = st.floats(0.0, 1.0, allow_nan=False)


def gen_s2p():
    def uni(lon, u):
        z = 2 * u - 1
        r = math.sqrt(max(0.0, 1 - z * z))
        return {"t": "s2p", "v": [r * math.cos(lon), r * math.sin(lon), z], "cls": "uniform"}

    def nbhd(i, u, b):
        d = 10.0 ** (-12 + 11 * u)
        return {"t": "s2p", "v": list(refgeo.offset_point(refgeo.FRAME[i], d, 2 * math.pi * b)), "cls": "frame_nbhd"}

    def seam(fi, j, t, u, side, kind):
        # a point on the great circle from face centre fi to vertex/midpoint j, displaced sideways by 10^-u
        c = refgeo.FACE_CENTRES[fi]
        pool = refgeo.FACE_VERTICES if kind == "seam_v" else refgeo.EDGE_MIDPOINTS
        # choose the j-th nearest element of pool to c among the 5 adjacent ones
        near = sorted(pool, key=lambda w: -refgeo._dot(w, c))[:5]
        w = near[j % 5]
        base = refgeo.slerp_vec(c, w, t * 1.3)          # up to 30 % beyond, into the neighbouring face
        normal = refgeo._norm(refgeo._cross(c, w))
        d = 10.0 ** (-13 + 11 * u) * (1 if side else -1)
        v = refgeo._norm(tuple(base[i] + d * normal[i] for i in range(3)))
        return {"t": "s2p", "v": list(v), "cls": "seam"}

    def edge(mi, t, u, side):
        # a point along a face edge (through edge midpoint mi, between its two vertices), displaced across it
        m = refgeo.EDGE_MIDPOINTS[mi]
        ends = sorted(refgeo.FACE_VERTICES, key=lambda w: -refgeo._dot(w, m))[:2]
        base = refgeo.slerp_vec(ends[0], ends[1], t)
        normal = refgeo._norm(refgeo._cross(ends[0], ends[1]))
        d = 10.0 ** (-13 + 11 * u) * (1 if side else -1)
        v = refgeo._norm(tuple(base[i] + d * normal[i] for i in range(3)))
        return {"t": "s2p", "v": list(v), "cls": "edge"}

    return st.one_of(
        st.builds(uni, st.floats(-math.pi, math.pi, allow_nan=False), _unit),
        st.builds(nbhd, st.integers(0, 61), _unit, _unit),
        st.builds(seam, st.integers(0, 11), st.integers(0, 4), _unit, _unit, st.booleans(), st.sampled_from(["seam_v", "seam_m"])),
        st.builds(edge, st.integers(0, 29), _unit, _unit, st.booleans()),
    )


def gen_p2s():
    def combo(face, k, ws, pull, target, u):
        hx = hexagon(k)
        s = sum(ws) or 1.0
        q = (sum(w * p[0] for w, p in zip(ws, hx)) / s, sum(w * p[1] for w, p in zip(ws, hx)) / s)
        cls = "uniform"
        if pull:
            # pull toward a vertex of the hexagon, the origin, the edge midpoint, or onto a seam ray
            tg = hx + [(0.0, 0.0), (D_EDGE * math.cos(math.radians(72 * k)), D_EDGE * math.sin(math.radians(72 * k)))]
            f = 10.0 ** (-13 + 12 * u)
            if target < len(tg):
                t = tg[target]
                q = (t[0] + (q[0] - t[0]) * f, t[1] + (q[1] - t[1]) * f)
                cls = "pulled_to_point"
            else:
                # seam ray gamma = m*36deg: keep radius, set angle to within f of the ray
                m = target - len(tg)
                rho = math.hypot(q[0], q[1])
                ang = math.radians(36 * m) + f * (1 if u > 0.5 else -1) * 0.1
                q2 = (rho * math.cos(ang), rho * math.sin(ang))
                # stay inside the hexagon: shrink radius until inside
                for _ in range(60):
                    if _inside_convex(q2, hx):
                        break
                    q2 = (q2[0] * 0.9, q2[1] * 0.9)
                q = q2
                cls = "near_seam_ray"
        return {"t": "p2s", "face": face, "q": [q[0], q[1]], "cls": cls, "k": k}

    return st.builds(combo, st.integers(0, 11), st.integers(0, 4),
                     st.lists(st.floats(0.0, 1.0, allow_nan=False), min_size=6, max_size=6),
                     st.booleans(), st.integers(0, 17), _unit)


def _inside_convex(q, poly):
    n = len(poly)
    for i in range(n):
        a, b = poly[i], poly[(i + 1) % n]
        if (b[0] - a[0]) * (q[1] - a[1]) - (b[1] - a[1]) * (q[0] - a[0]) < 0:
            return False
    return True


def stage_hyp(ctx):
    n = 6000 if ctx.tier == "quick" else 150000
    hyp_drive(ctx, st.one_of(gen_s2p(), gen_p2s()), judge, n)


def stage_boundary(ctx):
    """Unit vectors at log-scale distances from the places where the projection code's own branches flip."""
    from lib import boundary
    anc = boundary.anchors(ctx, "proj", 200 if ctx.tier == "quick" else 1000)
    if not anc:
        ctx.col.count("boundary_stage_skipped")
        return
    strat = boundary.anchor_points(anc).map(lambda p: {"t": "s2p", "v": list(refgeo.lonlat_to_frame((p["lon"], p["lat"]))), "cls": "branch_boundary"})
    hyp_drive(ctx, strat, judge, 1500 if ctx.tier == "quick" else 40000)


def plan(tier):
    return [Stage("hyp", 16, stage_hyp, cost=5), Stage("boundary", 16, stage_boundary, cost=4)]


def replay(rec, col):
    judge(rec["case"], col)
