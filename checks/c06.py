"""C06 — parent/children form a consistent tree over ids (DESIGN.md §6 C06)."""
from hypothesis import strategies as st

from lib import gens, refids
from lib.runner import Stage, Violation, hyp_drive

RULE = ("(cell c, parent res a, child res b): all cells of res -1..4 x all a in -1..res(c) x all b in res(c)..6 (quick) / 7 "
        "(thorough) by enumeration; Hypothesis (c by id construction with structured S incl. world cell, a in -1..res(c), "
        "b in res(c)..min(res(c)+3,29)) weighted to jumps across -1/0/1/2; out-of-order requests must raise ValueError. "
        "Oracle: behavioural relations (no repeats, all of res b, parent(child)=c, aperture product count, parent composes, "
        "membership, contiguous ascending run for res(c)>=1) + differential against refids.children/parent. "
        "Non-trivial = a < res(c)-1 or b > res(c)+1 or the jump crosses an aperture change (res<2<=b or a<2<=res); distinct by (c,a,b).")
ASSUMPTIONS = ["documented id layout is the specification (refids)"]
REQUIRED_CLASSES = {"crosses_aperture": (None, 0.1), "S_nonzero": ("hyp", 0.3)}


def _a5():
    import a5
    return a5


def judge_children(c, b, case):
    a5 = _a5()
    res = refids.res_of(c)
    try:
        kids = a5.cell_to_children(c, b)
    except Exception as e:  # noqa: BLE001
        raise Violation("children_raised", case, observed=f"{type(e).__name__}: {e}", expected="list of children")
    n = refids.nchildren(res, b)
    if len(kids) != n:
        raise Violation("children_count", case, observed=len(kids), expected=n)
    if len(set(kids)) != len(kids):
        raise Violation("children_repeat", case, observed="duplicates", expected="no repetition")
    ref = refids.children(c, b)
    if res >= 1:
        if kids != ref:
            bad = next(i for i in range(n) if kids[i] != ref[i])
            raise Violation("children_list_mismatch", case, observed=f"index {bad}: {hex(kids[bad])}", expected=hex(ref[bad]))
        # contiguous run of level-b ids in ascending numeric order
        if n > 1:
            stride = 1 << (60 - 2 * b)
            for i in range(1, n):
                if kids[i] - kids[i - 1] != stride:
                    raise Violation("children_not_contiguous_run", case, observed=f"step {kids[i] - kids[i - 1]} at {i}", expected=stride)
    else:
        if set(kids) != set(ref):
            raise Violation("children_set_mismatch", case, observed=[hex(x) for x in list(set(kids) ^ set(ref))[:3]], expected="reference set")
    for k in (kids if n <= 4096 else kids[:: max(1, n // 2048)] + kids[-3:]):
        if a5.get_resolution(k) != b:
            raise Violation("child_resolution", case, observed=a5.get_resolution(k), expected=b)
        try:
            p = a5.cell_to_parent(k, res)
        except Exception as e:  # noqa: BLE001
            raise Violation("parent_raised", case, observed=f"{type(e).__name__}: {e} for child {hex(k)}", expected=hex(c))
        if p != c:
            raise Violation("child_parent_mismatch", case, observed=hex(p), expected=hex(c))
    return kids


def judge_parent(c, a, case):
    a5 = _a5()
    res = refids.res_of(c)
    try:
        p = a5.cell_to_parent(c, a)
    except Exception as e:  # noqa: BLE001
        raise Violation("parent_raised", case, observed=f"{type(e).__name__}: {e}", expected="a cell")
    if p != refids.parent(c, a):
        raise Violation("parent_mismatch", case, observed=hex(p), expected=hex(refids.parent(c, a)))
    if a5.get_resolution(p) != a:
        raise Violation("parent_resolution", case, observed=a5.get_resolution(p), expected=a)
    # composition through every intermediate level
    for m in range(a, res + 1):
        mid = a5.cell_to_parent(c, m)
        if a5.cell_to_parent(mid, a) != p:
            raise Violation("parent_not_compositional", case, observed=f"via {m}: {hex(a5.cell_to_parent(mid, a))}", expected=hex(p))
    # membership: c is among the descendants of p at res(c) (when the list is small)
    if refids.nchildren(a, res) <= 4 ** 6:
        if c not in a5.cell_to_children(p, res):
            raise Violation("not_among_parents_children", case, observed="absent", expected="present")
    return p


def judge_errors(c, case):
    a5 = _a5()
    res = refids.res_of(c)
    probes = []
    if res >= 0:
        probes.append(("children_finer_to_coarser", a5.cell_to_children, (c, res - 1)))
    if res >= 1:
        probes.append(("children_much_coarser", a5.cell_to_children, (c, max(-1, res - 3))))
    if res < 29:
        probes.append(("parent_finer", a5.cell_to_parent, (c, res + 1)))
        probes.append(("parent_much_finer", a5.cell_to_parent, (c, min(29, res + 4))))
    probes.append(("parent_below_world", a5.cell_to_parent, (c, -2)))
    if res == -1:
        probes.append(("parent_of_world_default", a5.cell_to_parent, (c,)))
    for kind, fn, args in probes:
        try:
            out = fn(*args)
        except ValueError:
            continue
        except Exception as e:  # noqa: BLE001
            raise Violation("out_of_order_wrong_exception:" + kind, case, observed=f"{type(e).__name__}: {e}", expected="ValueError")
        raise Violation("out_of_order_returned:" + kind, case, observed=repr(out)[:100], expected="ValueError")


def judge_errors_related(c, a, b, case):
    """Out-of-order requests issued directly after a related valid request (where memoisation would bite)."""
    a5 = _a5()
    res = refids.res_of(c)

    def must_raise(kind, fn, *args):
        try:
            out = fn(*args)
        except ValueError:
            return
        except Exception as e:  # noqa: BLE001
            raise Violation("out_of_order_wrong_exception:" + kind, case, observed=f"{type(e).__name__}: {e}", expected="ValueError")
        raise Violation("out_of_order_returned:" + kind, case, observed=repr(out)[:100], expected="ValueError",
                        note=f"{fn.__name__}{tuple(hex(x) if isinstance(x, int) and x > 64 else x for x in args)} right after a valid related request")
    if a >= 1:
        for x in range(max(-1, a - 3), a):            # ancestors of the parent, asked for the parent's resolution
            p = a5.cell_to_parent(c, a)                # the valid request
            anc = refids.parent(p, x)
            must_raise("parent_of_ancestor_at_finer_res", a5.cell_to_parent, anc, a)
    if b > res:
        kids = a5.cell_to_children(c, b)              # the valid request
        for k in (kids[0], kids[len(kids) // 2], kids[-1]):
            a5.cell_to_children(c, b)
            must_raise("children_of_descendant_at_coarser_res", a5.cell_to_children, k, res)


def judge(case, col, enumerated=False):
    a5 = _a5()
    c = int(case["cell"], 16)
    a, b = case["a"], case["b"]
    res = refids.res_of(c)
    judge_children(c, b, case)
    judge_parent(c, a, case)
    if case.get("errors", True):
        judge_errors_related(c, a, b, case)
    if case.get("defaults"):
        if res < 29 and a5.cell_to_children(c) != a5.cell_to_children(c, res + 1):
            raise Violation("default_children", case, observed="differs", expected="res+1")
        if res >= 0 and a5.cell_to_parent(c) != a5.cell_to_parent(c, res - 1):
            raise Violation("default_parent", case, observed="differs", expected="res-1")
    if case.get("errors", True):
        judge_errors(c, case)
    d = refids.dec(c)
    crosses = (res < 2 <= b) or (a < 2 <= res)
    nt = (a < res - 1) or (b > res + 1) or crosses
    classes = ["enum" if enumerated else "hyp"]
    if crosses:
        classes.append("crosses_aperture")
    if d[3] != 0:
        classes.append("S_nonzero")
    if res == -1:
        classes.append("world")
    col.case(case, nontrivial=nt, classes=classes, enumerated=enumerated)


def stage_enum(ctx):
    a5 = _a5()
    maxb = 6 if ctx.tier == "quick" else 7
    cells = [0]
    for r in range(0, 5):
        cells += refids.children(0, r)
    for c in cells[ctx.shard::ctx.nshards]:
        res = refids.res_of(c)
        for a in range(-1, res + 1):
            for b in range(res, maxb + 1):
                # the full (a, b) product repeats work; children depend on b only, parents on a only
                if a != -1 and b != res:
                    if not ((a + b) % 3 == 0):
                        continue
                judge({"cell": hex(c), "a": a, "b": b, "errors": a == -1 and b == res, "defaults": b == res}, ctx.col, enumerated=True)
    if ctx.shard == 0:
        a5.get_res0_cells().clear()          # a caller emptying the returned list must not affect later calls
        a5.cell_to_children(0, 0).append(7)
        r0 = a5.get_res0_cells()
        if r0 != a5.cell_to_children(0, 0) or len(set(r0)) != 12 or set(r0) != set(refids.children(0, 0)):
            raise Violation("get_res0_cells", {"cell": "0x0", "a": -1, "b": 0}, observed=[hex(x) for x in r0], expected="the 12 res-0 cells")
    ctx.col.exhaustive[f"cells res<=4 x a x b<={maxb} (children for every b, parents for every a, both for a third of the pairs)"] = True


def cases():
    def mk(t, ua, ub, defaults):
        res = t[0]
        c = refids.enc(*t)
        a = -1 + int(ua * (res + 2 - 1e-9)) if res >= 0 else -1
        a = min(a, res)
        bmax = min(res + 3, 29)
        # keep world/res-0 expansions enumerable
        if res == -1:
            bmax = min(bmax, 2)
        b = res + int(ub * (bmax - res + 1 - 1e-9))
        return {"cell": hex(c), "a": a, "b": min(b, bmax), "defaults": defaults, "errors": True}
    u = st.floats(0, 1, allow_nan=False)
    return st.builds(mk, gens.cell_tuple(-1, 29, allow_world=True), u, u, st.booleans())


def stage_hyp(ctx):
    n = 1500 if ctx.tier == "quick" else 40000
    hyp_drive(ctx, cases(), judge, n)


def plan(tier):
    return [Stage("enum", 16, stage_enum, cost=10), Stage("hyp", 16, stage_hyp, cost=4)]


def replay(rec, col):
    judge(rec["case"], col)
