"""C20 — cell-count and area metadata agree with the actual hierarchy (DESIGN.md §6 C20)."""
import math

from lib import refids
from lib.runner import Stage, Violation

RULE = ("finite domain enumerated completely: r in -1..30 and all ordered resolution pairs/triples; get_num_cells vs "
        "len(set(cell_to_children(world, r))) for r<=7 (quick) / <=9 (thorough) and the closed form beyond; sums of children "
        "counts over every coarser level; get_num_children vs len(cell_to_children(c,b)) for cells at every a and every b "
        "with expansion <= 4^8, plus a few expansions of 1-6 million children; composition law n(a,m)*n(m,b)=n(a,b); cell_area(r)*get_num_cells(r)=4*pi*R^2 to 1e-12, "
        "strictly decreasing. Non-trivial = pair/triple crossing an aperture change (a<2<=b) or enumeration-backed level; "
        "every case distinct by construction.")
ASSUMPTIONS = ["closed form 12 / 60*4^(r-1) is the intended count (backed by enumeration for r<=9)"]
ALL_EXHAUSTIVE = True
R_AUTH = 6371007.2


def _lib():
    import a5
    from a5.core import cell_info
    return a5, cell_info


def stage_counts(ctx):
    a5, ci = _lib()
    col = ctx.col
    maxenum = 7 if ctx.tier == "quick" else 9
    levels = list(range(-1, 31))[ctx.shard::ctx.nshards]
    for r in levels:
        case = {"t": "count", "r": r}
        n = a5.get_num_cells(r)
        want = refids.ncells(r) if r >= 0 else 0
        if r == 30:
            want = 60 * 4 ** 29
        if r >= 0 and n != want:
            raise Violation("num_cells_closed_form", case, observed=n, expected=want)
        if 0 <= r <= maxenum:
            kids = a5.cell_to_children(0, r)
            if len(kids) != n or len(set(kids)) != n:
                raise Violation("num_cells_vs_enumeration", case, observed=(len(kids), len(set(kids))), expected=n)
            # the counts must keep agreeing with the hierarchy whatever callers did with earlier results
            kids.clear()
            r0 = a5.get_res0_cells()
            r0.clear()
            again = a5.cell_to_children(0, r)
            if len(set(again)) != n:
                raise Violation("num_cells_vs_enumeration_after_caller_mutation", case, observed=len(set(again)), expected=n)
            col.bulk(1, 1, cls="count_enumerated", sample=case)
        else:
            col.bulk(1, 1 if r >= 2 else 0, cls="count_closed_form", sample=case)
        # sum over any coarser level of the children counts
        for a in range(0, r):
            tot = a5.get_num_cells(a) * ci.get_num_children(a, r)
            if tot != n:
                raise Violation("sum_of_children_counts", {"t": "sum", "a": a, "r": r}, observed=tot, expected=n)
            col.bulk(1, 1 if a < 2 <= r else 0, cls="sum_over_coarser")
        if r >= 0 and ci.get_num_children(-1, r) != n:
            raise Violation("children_of_world_count", case, observed=ci.get_num_children(-1, r), expected=n)
    col.exhaustive["r in -1..30 counts"] = True


def stage_pairs(ctx):
    a5, ci = _lib()
    col = ctx.col
    pairs = [(a, b) for a in range(-1, 30) for b in range(-1, 30)]
    for a, b in pairs[ctx.shard::ctx.nshards]:
        case = {"t": "pair", "a": a, "b": b}
        got = ci.get_num_children(a, b)
        if b < a:
            # no descendants exist at a coarser level and cell_to_children raises there: the property makes no claim
            # about the value of the count rule for such pairs (uncompact's refusal is C10's business)
            col.bulk(1, 0, cls="pair_reversed_no_claim", sample=case)
            continue
        want = refids.nchildren(a, b)
        if got != want:
            raise Violation("num_children_rule", case, observed=got, expected=want)
        nt = a < 2 <= b
        # against the actual hierarchy for sampled cells
        if b >= a and want <= 4 ** 8:
            cells = _sample_cells(a)
            for c in cells:
                try:
                    kids = a5.cell_to_children(c, b)
                except Exception as e:  # noqa: BLE001
                    raise Violation("children_raised", {**case, "cell": hex(c)}, observed=f"{type(e).__name__}: {e}", expected=f"{want} children")
                if len(kids) != got:
                    raise Violation("num_children_vs_len_children", {**case, "cell": hex(c)}, observed=len(kids), expected=got)
                if want <= 4096 and set(kids) != set(refids.children(c, b)):
                    raise Violation("children_are_not_the_cells_descendants", {**case, "cell": hex(c)},
                                    observed=[hex(x) for x in sorted(set(kids) - set(refids.children(c, b)))[:3]], expected="the reference descendants (distinct)")
            col.bulk(1, 1 if nt else 0, cls="pair_backed_by_children", sample=case)
        else:
            col.bulk(1, 1 if nt else 0, cls="pair_algebraic", sample=case)
        for m in range(a, b + 1):
            if ci.get_num_children(a, m) * ci.get_num_children(m, b) != got:
                raise Violation("composition_law", {"t": "triple", "a": a, "m": m, "b": b},
                                observed=ci.get_num_children(a, m) * ci.get_num_children(m, b), expected=got)
            col.bulk(1, 1 if (a < 2 <= b) else 0, cls="triple")
    col.exhaustive["all ordered pairs/triples in -1..29"] = True


def _sample_cells(a):
    if a == -1:
        return [0]
    if a == 0:
        return [refids.enc(0, f) for f in (0, 2, 7, 11)]
    if a == 1:
        return [refids.enc(1, f, q) for f, q in ((0, 0), (3, 4), (11, 2))]
    lim = 4 ** (a - 1)
    return [refids.enc(a, f, q, S) for f, q, S in ((0, 0, 0), (5, 3, lim - 1), (11, 4, lim // 3), (2, 1, lim // 2 + 1 if lim > 2 else 0))]


def stage_area(ctx):
    a5, ci = _lib()
    col = ctx.col
    total = 4 * math.pi * R_AUTH * R_AUTH
    prev = None
    for r in range(-1, 31):
        case = {"t": "area", "r": r}
        ar = a5.cell_area(r)
        if r >= 0:
            n = a5.get_num_cells(r)
            rel = abs(ar * n / total - 1)
            col.measure("area_times_count_rel_err", rel, case)
            if not rel <= 1e-12:
                raise Violation("area_times_count", case, observed=ar * n, expected=total)
        else:
            if abs(ar / total - 1) > 1e-12:
                raise Violation("world_area", case, observed=ar, expected=total)
        if prev is not None and not (ar < prev):
            raise Violation("area_not_strictly_decreasing", case, observed=(prev, ar), expected="decreasing")
        prev = ar
        col.bulk(1, 1, cls="area", sample=case)
    # sanity (evidence only): the radius constant vs the closed-form WGS84 authalic radius
    f = 1 / 298.257223563
    e2 = f * (2 - f)
    e = math.sqrt(e2)
    a_ = 6378137.0
    rq = a_ * math.sqrt(0.5 * (1 + (1 - e2) / e * math.atanh(e)))
    col.measure("authalic_radius_minus_closed_form_m", abs(rq - R_AUTH), {"closed_form": rq})
    col.exhaustive["cell_area r in -1..30"] = True


def stage_large(ctx):
    """Expansions of millions of children (where an implementation may switch to a bulk path): the count rule must still
    equal the length of the list, which must still be the reference descendants."""
    a5, ci = _lib()
    limit = 1_400_000 if ctx.tier == "quick" else 6_000_000
    jobs = []
    for a in (0, 1, 2, 3, 7, 16):
        for b in range(a + 9, a + 13):
            if b <= 29 and (1 << 20) - 1 <= refids.nchildren(a, b) <= limit:
                jobs.append((a, b))
    # one expansion beyond the limit in either tier: 4^11 children (quick), 4^12 (thorough)
    extra = (2 + ctx.seed % 5, 13 + ctx.seed % 5) if ctx.tier == "quick" else (5, 17)
    jobs.append(extra)
    for a, b in jobs[ctx.shard::ctx.nshards]:
        for c in _sample_cells(a)[:1 if (ctx.tier == "quick" or (a, b) == extra) else 2]:
            case = {"t": "large", "a": a, "b": b, "cell": hex(c)}
            want = ci.get_num_children(a, b)
            if want != refids.nchildren(a, b):
                raise Violation("num_children_rule", case, observed=want, expected=refids.nchildren(a, b))
            kids = a5.cell_to_children(c, b)
            n = len(kids)
            if n != want:
                raise Violation("num_children_vs_len_children", case, observed=n, expected=want)
            if len(set(kids)) != n:
                raise Violation("children_repeat", case, observed=n - len(set(kids)), expected=0)
            lo, hi = refids.interval(c)
            step = max(1, n // 5000)
            for k in kids[::step] + kids[-3:]:
                d = refids.dec(k)
                if d is None or d[0] != b or not (lo <= refids.interval(k)[0] < hi):
                    raise Violation("child_not_a_descendant", case, observed=hex(k), expected=f"a res-{b} descendant of {hex(c)}")
            del kids
            ctx.col.bulk(1, 1, cls="large_expansion", sample=case)


def plan(tier):
    return [Stage("counts", 8, stage_counts, cost=5), Stage("pairs", 16, stage_pairs, cost=5), Stage("area", 1, stage_area), Stage("large", 8, stage_large, cost=9)]


def replay(rec, col):
    # cases are tiny and the domain is enumerated completely on every run; replay re-runs the relevant stage
    from lib.runner import Ctx
    t = rec["case"].get("t")
    ctx = Ctx(0, 1, 0, "quick", col, "replay")
    {"count": stage_counts, "sum": stage_counts, "pair": stage_pairs, "triple": stage_pairs, "area": stage_area, "large": stage_large}[t](ctx)
