"""Shared mutable state of the a5 package, observed from outside (no source hooks).

find_containers() walks every loaded a5.* module: module-level lists / dicts / sets / bytearrays and the attributes of
module-level instances of a5-defined classes (two levels deep). Tracker.diff() reports which slots (list index, dict
key, instance attribute) changed since the previous call, with old and new value digests. C16 uses this to *aim*
schedules: a slot that one call writes with one value and another call overwrites with a different value is where a
preemption between "check" and "use" can hurt, so such call pairs get the systematic every-line preemption sweep.
Overwrites are not violations in themselves (a statistics counter is overwritten all the time); only results decide.
"""
import sys
import types

_SCALARS = (int, float, str, bool, bytes, type(None), complex)


def _digest(v):
    try:
        r = repr(v)
    except Exception:  # noqa: BLE001
        r = f"<{type(v).__name__}>"
    return r if len(r) <= 200 else r[:200]


def find_containers():
    """-> list of (path, object) for shared mutable containers and instances."""
    out = []
    seen = set()
    HOME.clear()

    def add(path, obj, depth, home=()):
        if id(obj) in seen:
            return
        if isinstance(obj, (list, dict, set, bytearray)):
            seen.add(id(obj))
            out.append((path, obj))
            HOME[path] = tuple(home)
            if depth > 0 and isinstance(obj, (list, dict)) and len(obj) <= 512:
                items = obj.items() if isinstance(obj, dict) else enumerate(obj)
                for k, v in items:
                    if isinstance(v, (list, dict, set, bytearray)) or _is_a5_instance(v):
                        add(f"{path}[{k!r}]", v, depth - 1, home)
        elif _is_a5_instance(obj):
            seen.add(id(obj))
            d = getattr(obj, "__dict__", None)
            cfile = getattr(sys.modules.get(type(obj).__module__), "__file__", None)
            home2 = tuple(home) + ((cfile,) if cfile else ())
            if isinstance(d, dict):
                out.append((path + ".__dict__", d))
                HOME[path + ".__dict__"] = home2
                if depth > 0:
                    for k, v in list(d.items()):
                        add(f"{path}.{k}", v, depth - 1, home2)

    for name, mod in sorted(sys.modules.items()):
        if not (name == "a5" or name.startswith("a5.")) or mod is None:
            continue
        home = (getattr(mod, "__file__", None),)
        for k, v in list(vars(mod).items()):
            if k.startswith("__") or isinstance(v, types.ModuleType):
                continue
            if isinstance(v, types.FunctionType):
                _function_state(f"{name}.{k}", v, add, home)
                continue
            if isinstance(v, type):
                if getattr(v, "__module__", "") == name:
                    for ck, cv in list(vars(v).items()):
                        f = getattr(cv, "__func__", cv)
                        if isinstance(f, types.FunctionType):
                            _function_state(f"{name}.{k}.{ck}", f, add, home)
                        elif isinstance(cv, (list, dict, set, bytearray)):
                            add(f"{name}.{k}.{ck}", cv, 1, home)        # class-level mutable state
                continue
            add(f"{name}.{k}", v, 2, home)
    return out


def _function_state(path, fn, add, home):
    """Mutable state reachable from a function object: closure cells, mutable defaults, function attributes, and the
    same for a wrapped function (decorators)."""
    seen_fn = set()
    while isinstance(fn, types.FunctionType) and id(fn) not in seen_fn:
        seen_fn.add(id(fn))
        names = fn.__code__.co_freevars
        for nm, cell in zip(names, fn.__closure__ or ()):
            try:
                val = cell.cell_contents
            except ValueError:
                continue
            if isinstance(val, (list, dict, set, bytearray)):
                add(f"{path}.<closure {nm}>", val, 1, home)
                CLOSURE_NAME[f"{path}.<closure {nm}>"] = nm
        for i, d in enumerate(fn.__defaults__ or ()):
            if isinstance(d, (list, dict, set, bytearray)):
                add(f"{path}.<default {i}>", d, 1, home)
        for ak, av in list(getattr(fn, "__dict__", {}).items()):
            if isinstance(av, (list, dict, set, bytearray)):
                add(f"{path}.{ak}", av, 1, home)
        fn = getattr(fn, "__wrapped__", None)


CLOSURE_NAME = {}


HOME = {}          # container path -> source files of the code that owns it (module holding it, class defining it)


def home_files(slot_path):
    """Source files whose code is expected to read/write the slot (longest matching container path)."""
    best = ()
    bl = -1
    for p, files in HOME.items():
        if slot_path.startswith(p) and len(p) > bl:
            best, bl = files, len(p)
    return frozenset(f for f in best if f)


def _is_a5_instance(v):
    cls = type(v)
    return getattr(cls, "__module__", "").startswith("a5") and not isinstance(v, tuple) and hasattr(v, "__dict__")


class Tracker:
    def __init__(self):
        self.refresh()

    def refresh(self):
        self.previous = {}          # container path -> (object, shallow copy before the last change seen)
        self.containers = find_containers()
        self.copies = [self._copy(o) for _, o in self.containers]

    @staticmethod
    def _copy(o):
        if isinstance(o, dict):
            return dict(o)
        if isinstance(o, list):
            return list(o)
        if isinstance(o, set):
            return set(o)
        return bytes(o)

    def diff(self):
        """-> list of (slot path, old digest or None if new, new digest); then re-baselines."""
        changes = []
        for i, (path, o) in enumerate(self.containers):
            old = self.copies[i]
            try:
                same = (o == old) and (not isinstance(o, list) or len(o) == len(old))
            except Exception:  # noqa: BLE001
                same = False
            if same:
                continue
            self.previous[path] = (o, old)
            if isinstance(o, dict):
                for k, v in o.items():
                    if k not in old:
                        changes.append((f"{path}[{k!r}]"[:160], None, _digest(v)))
                    elif not _eq(old[k], v):
                        changes.append((f"{path}[{k!r}]"[:160], _digest(old[k]), _digest(v)))
                gone = [k for k in old if k not in o]
                for k in gone[:50]:
                    changes.append((f"{path}[{k!r}]"[:160], _digest(old[k]), "<deleted>"))
            elif isinstance(o, list):
                for j, v in enumerate(o):
                    if j >= len(old):
                        changes.append((f"{path}[{j}]", None, _digest(v)))
                    elif not _eq(old[j], v):
                        changes.append((f"{path}[{j}]", _digest(old[j]) if old[j] is not None else None, _digest(v)))
            else:
                changes.append((path, _digest(old), _digest(o)))
            self.copies[i] = self._copy(o)
        # containers created since (lazily built caches): looked for on the first calls and then every 64th
        self._n = getattr(self, "_n", 0) + 1
        if self._n > 8 and self._n % 64:
            return changes
        known = {id(o) for _, o in self.containers}
        for path, o in find_containers():
            if id(o) not in known:
                self.containers.append((path, o))
                self.copies.append(self._copy(o))
        return changes


def _eq(a, b):
    if a is b:
        return True
    try:
        return bool(a == b) and type(a) is type(b)
    except Exception:  # noqa: BLE001
        return False


def slot_name(slot_path):
    """The identifier under which code refers to the slot's container: the module-level variable name, or the
    instance attribute name."""
    import re
    m = re.search(r"<closure ([A-Za-z_][A-Za-z0-9_]*)>", slot_path)
    if m:
        return m.group(1)
    m = re.search(r"__dict__\['([A-Za-z_][A-Za-z0-9_]*)'\]", slot_path)
    if m:
        return m.group(1)
    head = slot_path.split("[")[0]
    return head.split(".")[-1] if not head.endswith("__dict__") else head.split(".")[-2]


_code_cache = {}


def accessor_codes(name):
    """Code objects (functions, methods, nested) in the a5 package whose bytecode refers to `name`."""
    if name in _code_cache:
        return _code_cache[name]
    found = set()

    def visit(code):
        if name in code.co_names or name in code.co_varnames or name in code.co_freevars:
            found.add(code)
        for c in code.co_consts:
            if isinstance(c, types.CodeType):
                visit(c)

    for mname, mod in list(sys.modules.items()):
        if not (mname == "a5" or mname.startswith("a5.")) or mod is None:
            continue
        for v in list(vars(mod).values()):
            if isinstance(v, types.FunctionType) and v.__module__ == mname:
                visit(v.__code__)
            elif isinstance(v, type) and v.__module__ == mname:
                for w in vars(v).values():
                    f = getattr(w, "__func__", w)
                    if isinstance(f, types.FunctionType):
                        visit(f.__code__)
                    elif isinstance(w, property) and w.fget is not None:
                        visit(w.fget.__code__)
    _code_cache[name] = frozenset(found)
    return _code_cache[name]


def owner_codes(slot_path):
    """For state that lives on a function itself (a mutable default value, a function attribute): the code of that
    function - the preemption points inside it are the ones that matter, and no global name refers to the slot."""
    import sys
    import types
    for marker in (".<default ", ".<kwdefault ", ".<attr "):
        if marker in slot_path:
            head = slot_path.split(marker)[0]
            parts = head.split(".")
            for cut in range(len(parts), 0, -1):
                mod = sys.modules.get(".".join(parts[:cut]))
                if mod is None:
                    continue
                obj = mod
                try:
                    for name in parts[cut:]:
                        obj = getattr(obj, name)
                except AttributeError:
                    break
                fn = getattr(obj, "__func__", obj)
                code = getattr(fn, "__code__", None)
                if isinstance(code, types.CodeType):
                    return {code}
                break
    return set()


def container_path(slot_path):
    """The tracked container a slot belongs to (longest registered path that prefixes it)."""
    best = None
    for p in HOME:
        if slot_path.startswith(p) and (best is None or len(p) > len(best)):
            best = p
    return best


def restore(obj, snapshot):
    """Put a tracked container back into a state it was in earlier in this process (in place)."""
    if isinstance(obj, dict):
        obj.clear()
        obj.update(snapshot)
    elif isinstance(obj, list):
        obj[:] = snapshot
    elif isinstance(obj, set):
        obj.clear()
        obj.update(snapshot)


# ---------------------------------------------------------------------------------------------
# transient shared state: values that a call changes and puts back before it returns
# ---------------------------------------------------------------------------------------------
_SCALAR = (bool, int, float, str, bytes, type(None))


def scalar_slots():
    """[(namespace dict, key, label)] for every scalar (or small tuple / list / dict of scalars) held at module level, at
    class level or on a module-level a5 instance inside the a5 package: the places where a flag, a mode switch, a
    'current' value or a scratch record can live between two lines of one call."""
    import sys
    out = []
    seen = set()
    for mname, mod in sorted(sys.modules.items()):
        if not (mname == "a5" or mname.startswith("a5.")) or mod is None:
            continue
        for k, v in list(vars(mod).items()):
            if k.startswith("__"):
                continue
            if isinstance(v, type) and getattr(v, "__module__", None) == mname:
                if id(v) in seen:
                    continue
                seen.add(id(v))
                for ck, cv in list(vars(v).items()):
                    if not ck.startswith("__") and _small(cv):
                        out.append((v, ck, f"{mname}.{k}.{ck}", True))
            elif _small(v):
                out.append((vars(mod), k, f"{mname}.{k}", False))
            elif _is_a5_instance(v) and hasattr(v, "__dict__") and id(v) not in seen:
                seen.add(id(v))
                for ik, iv in list(vars(v).items()):
                    if _small(iv):
                        out.append((vars(v), ik, f"{mname}.{k}.{ik}", False))
    return out


def _small(v):
    if isinstance(v, _SCALAR):
        return True
    if isinstance(v, (tuple, list)) and len(v) <= 8:
        return all(isinstance(x, _SCALAR) for x in v)
    if isinstance(v, dict) and len(v) <= 8:
        return all(isinstance(x, _SCALAR) for x in v.values())
    return False


def _read(slot):
    holder, key, _label, is_class = slot
    v = getattr(holder, key, None) if is_class else holder.get(key)
    if isinstance(v, (list, dict)):
        return repr(v)
    return v


def scan_transients(fn, max_events=6000):
    """Runs fn() under a line tracer; at every line event inside the a5 package the scalar slots are compared with
    their values at the start. -> {label: [event indices at which the slot differs from its start value]} for slots
    that are back to the start value when fn returns (numbering as in sched.run_preempted without restrictions)."""
    import sys
    from lib import sched
    root = sched._a5_root()
    slots = scalar_slots()
    base = [_read(s) for s in slots]
    hits = {}
    state = {"count": 0}

    def local(frame, event, arg):
        if event == "line":
            k = state["count"]
            if k < max_events:
                for i, sl in enumerate(slots):
                    v = _read(sl)
                    b = base[i]
                    if v is not b and (type(v) is not type(b) or v != b):
                        hits.setdefault(i, []).append(k)
            state["count"] = k + 1
        return local

    def glob(frame, event, arg):
        if event == "call" and frame.f_code.co_filename.startswith(root):
            return local
        return None

    sys.settrace(glob)
    try:
        try:
            fn()
        except Exception:  # noqa: BLE001
            pass
    finally:
        sys.settrace(None)
    out = {}
    for i, ks in hits.items():
        v = _read(slots[i])
        b = base[i]
        if v is b or (type(v) is type(b) and v == b):
            out[slots[i][2]] = ks                      # changed during the call, restored at its end
    return out
