"""Shared mutable state of the a5 package, observed from outside (no source hooks).

find_containers() walks every loaded a5.* module: module-level lists / dicts / sets / bytearrays and the attributes of
module-level instances of a5-defined classes (two levels deep). Tracker.diff() reports which slots (list index, dict
key, instance attribute) changed since the previous call, with old and new value digests. C16 uses this to *aim*
schedules: a slot that one call writes with one value and another call overwrites with a different value is where a
preemption between "check" and "use" can hurt, so such call pairs get the systematic every-line preemption sweep.
Overwrites are not violations in themselves (a statistics counter is overwritten all the time); only results decide.
"""
import sys
import types

_SCALARS = (int, float, str, bool, bytes, type(None), complex)


def _digest(v):
    try:
        r = repr(v)
    except Exception:  # noqa: BLE001
        r = f"<{type(v).__name__}>"
    return r if len(r) <= 200 else r[:200]


def find_containers():
    """-> list of (path, object) for shared mutable containers and instances."""
    out = []
    seen = set()
    HOME.clear()

    def add(path, obj, depth, home=()):
        if id(obj) in seen:
            return
        if isinstance(obj, (list, dict, set, bytearray)):
            seen.add(id(obj))
            out.append((path, obj))
            HOME[path] = tuple(home)
            if depth > 0 and isinstance(obj, (list, dict)) and len(obj) <= 512:
                items = obj.items() if isinstance(obj, dict) else enumerate(obj)
                for k, v in items:
                    if isinstance(v, (list, dict, set, bytearray)) or _is_a5_instance(v):
                        add(f"{path}[{k!r}]", v, depth - 1, home)
        elif _is_a5_instance(obj):
            seen.add(id(obj))
            d = getattr(obj, "__dict__", None)
            cfile = getattr(sys.modules.get(type(obj).__module__), "__file__", None)
            home2 = tuple(home) + ((cfile,) if cfile else ())
            if isinstance(d, dict):
                out.append((path + ".__dict__", d))
                HOME[path + ".__dict__"] = home2
                if depth > 0:
                    for k, v in list(d.items()):
                        add(f"{path}.{k}", v, depth - 1, home2)

    for name, mod in sorted(sys.modules.items()):
        if not (name == "a5" or name.startswith("a5.")) or mod is None:
            continue
        for k, v in list(vars(mod).items()):
            if k.startswith("__") or isinstance(v, (types.ModuleType, types.FunctionType, type)):
                continue
            add(f"{name}.{k}", v, 2, (getattr(mod, "__file__", None),))
    return out


HOME = {}          # container path -> source files of the code that owns it (module holding it, class defining it)


def home_files(slot_path):
    """Source files whose code is expected to read/write the slot (longest matching container path)."""
    best = ()
    bl = -1
    for p, files in HOME.items():
        if slot_path.startswith(p) and len(p) > bl:
            best, bl = files, len(p)
    return frozenset(f for f in best if f)


def _is_a5_instance(v):
    cls = type(v)
    return getattr(cls, "__module__", "").startswith("a5") and not isinstance(v, tuple) and hasattr(v, "__dict__")


class Tracker:
    def __init__(self):
        self.refresh()

    def refresh(self):
        self.containers = find_containers()
        self.copies = [self._copy(o) for _, o in self.containers]

    @staticmethod
    def _copy(o):
        if isinstance(o, dict):
            return dict(o)
        if isinstance(o, list):
            return list(o)
        if isinstance(o, set):
            return set(o)
        return bytes(o)

    def diff(self):
        """-> list of (slot path, old digest or None if new, new digest); then re-baselines."""
        changes = []
        for i, (path, o) in enumerate(self.containers):
            old = self.copies[i]
            try:
                same = (o == old) and (not isinstance(o, list) or len(o) == len(old))
            except Exception:  # noqa: BLE001
                same = False
            if same:
                continue
            if isinstance(o, dict):
                for k, v in o.items():
                    if k not in old:
                        changes.append((f"{path}[{k!r}]"[:160], None, _digest(v)))
                    elif not _eq(old[k], v):
                        changes.append((f"{path}[{k!r}]"[:160], _digest(old[k]), _digest(v)))
            elif isinstance(o, list):
                for j, v in enumerate(o):
                    if j >= len(old):
                        changes.append((f"{path}[{j}]", None, _digest(v)))
                    elif not _eq(old[j], v):
                        changes.append((f"{path}[{j}]", _digest(old[j]) if old[j] is not None else None, _digest(v)))
            else:
                changes.append((path, _digest(old), _digest(o)))
            self.copies[i] = self._copy(o)
        # containers created since (lazily built caches)
        known = {id(o) for _, o in self.containers}
        for path, o in find_containers():
            if id(o) not in known:
                self.containers.append((path, o))
                self.copies.append(self._copy(o))
        return changes


def _eq(a, b):
    if a is b:
        return True
    try:
        return bool(a == b) and type(a) is type(b)
    except Exception:  # noqa: BLE001
        return False


def slot_name(slot_path):
    """The identifier under which code refers to the slot's container: the module-level variable name, or the
    instance attribute name."""
    import re
    m = re.search(r"__dict__\['([A-Za-z_][A-Za-z0-9_]*)'\]", slot_path)
    if m:
        return m.group(1)
    head = slot_path.split("[")[0]
    return head.split(".")[-1] if not head.endswith("__dict__") else head.split(".")[-2]


_code_cache = {}


def accessor_codes(name):
    """Code objects (functions, methods, nested) in the a5 package whose bytecode refers to `name`."""
    if name in _code_cache:
        return _code_cache[name]
    found = set()

    def visit(code):
        if name in code.co_names or name in code.co_varnames or name in code.co_freevars:
            found.add(code)
        for c in code.co_consts:
            if isinstance(c, types.CodeType):
                visit(c)

    for mname, mod in list(sys.modules.items()):
        if not (mname == "a5" or mname.startswith("a5.")) or mod is None:
            continue
        for v in list(vars(mod).values()):
            if isinstance(v, types.FunctionType) and v.__module__ == mname:
                visit(v.__code__)
            elif isinstance(v, type) and v.__module__ == mname:
                for w in vars(v).values():
                    f = getattr(w, "__func__", w)
                    if isinstance(f, types.FunctionType):
                        visit(f.__code__)
                    elif isinstance(w, property) and w.fget is not None:
                        visit(w.fget.__code__)
    _code_cache[name] = frozenset(found)
    return _code_cache[name]
