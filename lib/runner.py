"""Runner: tiers, seeds, sharding over processes, evidence, VIOLATION / KNOWN-FINDING lines, exit codes.

Usage (through /verif/check):
    python -m lib.runner C05 [--tier quick|thorough] [--seed N] [--only STAGE[,STAGE]] [--jobs N]
    python -m lib.runner C05 --replay path.json

Exit codes: 0 held (KNOWN-FINDING lines possible), 1 violation, 2 harness error.
"""
import argparse
import copy
import hashlib
import importlib
import json
import multiprocessing
import os
import sys
import time
import traceback
from collections import Counter

VERIF = os.path.dirname(os.path.dirname(os.path.abspath(__file__)))
REPO = os.environ.get("VERIF_REPO", "/repo")
WORK = os.path.join(VERIF, ".work")

MAX_SAMPLES_PER_CLASS = 3


class Violation(Exception):
    """A property violation found by a judge. `case` must be JSON-serialisable and replayable."""

    def __init__(self, kind, case, observed=None, expected=None, note=""):
        super().__init__(f"{kind}: observed={observed!r} expected={expected!r} {note}")
        self.kind = kind
        self.case = case
        self.observed = observed
        self.expected = expected
        self.note = note

    def to_dict(self):
        return {"kind": self.kind, "case": self.case, "observed": _jsonable(self.observed),
                "expected": _jsonable(self.expected), "note": self.note}


class HarnessError(Exception):
    pass


def _jsonable(x):
    try:
        json.dumps(x)
        return x
    except (TypeError, ValueError):
        return repr(x)


def case_hash(case):
    return int.from_bytes(hashlib.blake2b(repr(case).encode(), digest_size=8).digest(), "big")


class Collector:
    """Per-shard statistics. Merged by the parent."""

    def __init__(self):
        self.evaluations = 0
        self.hashes = set()          # hashes of non-trivial cases (random stages)
        self.by_construction = 0     # non-trivial cases distinct by construction (enumerations)
        self.classes = Counter()
        self.samples = {}
        self.worst = {}
        self.counters = Counter()
        self.violations = []
        self.exhaustive = {}
        self.kf_hits = Counter()
        self.notes = []
        self.frozen = False          # set while hypothesis is shrinking: no statistics then

    # -- recording ---------------------------------------------------------------
    def case(self, case, nontrivial, classes=(), enumerated=False):
        if self.frozen:
            return
        self.evaluations += 1
        if isinstance(classes, str):
            classes = (classes,)
        for c in classes:
            self.classes[c] += 1
            s = self.samples.setdefault(c, [])
            if len(s) < MAX_SAMPLES_PER_CLASS:
                s.append(_jsonable(case))
        if not classes:
            s = self.samples.setdefault("_", [])
            if len(s) < MAX_SAMPLES_PER_CLASS:
                s.append(_jsonable(case))
        if nontrivial:
            if enumerated:
                self.by_construction += 1
            else:
                self.hashes.add(case_hash(case))

    def bulk(self, n, nontrivial_n, cls=None, sample=None):
        """Record n enumerated cases at once (distinct by construction)."""
        if self.frozen:
            return
        self.evaluations += n
        self.by_construction += nontrivial_n
        if cls:
            self.classes[cls] += n
            if sample is not None:
                s = self.samples.setdefault(cls, [])
                if len(s) < MAX_SAMPLES_PER_CLASS:
                    s.append(_jsonable(sample))

    def measure(self, name, value, case=None, mode="max"):
        if self.frozen:
            return
        cur = self.worst.get(name)
        if cur is None or (mode == "max" and value > cur[0]) or (mode == "min" and value < cur[0]):
            self.worst[name] = (value, _jsonable(case), mode)

    def count(self, name, n=1):
        if self.frozen:
            return
        self.counters[name] += n

    def known(self, kf_id):
        if self.frozen:
            return
        self.kf_hits[kf_id] += 1
        self.counters["excluded_known"] += 1

    def violation(self, v):
        self.violations.append(v.to_dict())

    # -- transport -----------------------------------------------------------------
    def dump(self):
        return {
            "evaluations": self.evaluations, "hashes": self.hashes, "by_construction": self.by_construction,
            "classes": dict(self.classes), "samples": self.samples, "worst": self.worst,
            "counters": dict(self.counters), "violations": self.violations, "exhaustive": self.exhaustive,
            "kf_hits": dict(self.kf_hits), "notes": self.notes,
        }

    def merge(self, d):
        self.evaluations += d["evaluations"]
        self.hashes |= d["hashes"]
        self.by_construction += d["by_construction"]
        self.classes.update(d["classes"])
        for k, v in d["samples"].items():
            s = self.samples.setdefault(k, [])
            for x in v:
                if len(s) < MAX_SAMPLES_PER_CLASS:
                    s.append(x)
        for k, (val, case, mode) in d["worst"].items():
            cur = self.worst.get(k)
            if cur is None or (mode == "max" and val > cur[0]) or (mode == "min" and val < cur[0]):
                self.worst[k] = (val, case, mode)
        self.counters.update(d["counters"])
        self.violations.extend(d["violations"])
        for k, v in d["exhaustive"].items():
            self.exhaustive[k] = self.exhaustive.get(k, True) and v
        self.kf_hits.update(d["kf_hits"])
        self.notes.extend(d["notes"])


class Stage:
    def __init__(self, name, nshards, fn, cost=1.0, note=""):
        self.name = name
        self.nshards = nshards
        self.fn = fn              # fn(ctx) ; ctx has shard, nshards, seed, tier, col
        self.cost = cost
        self.note = note


class Ctx:
    def __init__(self, shard, nshards, seed, tier, col, stage):
        self.shard = shard
        self.nshards = nshards
        self.seed = seed
        self.tier = tier
        self.col = col
        self.stage = stage

    @property
    def shard_seed(self):
        # Distinct per (seed, stage, shard); a pure function of VERIF_SEED
        h = hashlib.blake2b(f"{self.seed}/{self.stage}/{self.shard}".encode(), digest_size=4).digest()
        return int.from_bytes(h, "big")


# ---------------------------------------------------------------------------------------------
# Hypothesis driver
# ---------------------------------------------------------------------------------------------

def hyp_drive(ctx, strategy, judge, n, shrink=None):
    """Run judge(case, col) on n generated cases. A Violation is (optionally) shrunk and recorded.

    All randomness is Hypothesis's, seeded from ctx.shard_seed.
    """
    import hypothesis
    from hypothesis import HealthCheck, Phase, given, settings

    col = ctx.col
    if shrink is None:
        shrink = ctx.tier == "thorough"
    phases = [Phase.explicit, Phase.generate] + ([Phase.shrink] if shrink else [])
    st = settings(max_examples=n, database=None, deadline=None, derandomize=False,
                  report_multiple_bugs=False, suppress_health_check=list(HealthCheck),
                  phases=phases, print_blob=False)

    early = []

    @hypothesis.seed(ctx.shard_seed)
    @st
    @given(strategy)
    def test(case):
        if len(early) < 25 and not col.frozen:
            early.append(copy.deepcopy(case))
        try:
            judge(case, col)
        except Violation:
            col.frozen = True
            raise

    try:
        test()
        # the same process has now made thousands of other calls: the first cases must still be judged the same
        # (history dependence inside a long-lived process is a violation of every per-input property)
        col.frozen = True
        try:
            for case in early:
                try:
                    judge(copy.deepcopy(case), col)
                except Violation as v:
                    v.kind = v.kind + "_when_rejudged_after_other_calls"
                    raise v
        finally:
            col.frozen = False
        col.count("early_cases_rejudged_at_end", len(early))
    except Violation as v:
        col.frozen = False
        col.violation(v)
    except hypothesis.errors.Unsatisfiable as e:
        raise HarnessError(f"generator unsatisfiable in {ctx.stage}: {e}")
    finally:
        col.frozen = False


def guarded(fn, *args, kind="raised", case=None, allowed=()):
    """Call library code that the property says must not raise."""
    try:
        return fn(*args)
    except allowed:
        raise
    except Violation:
        raise
    except Exception as e:  # noqa: BLE001 - any exception from the library is the finding
        tb = traceback.extract_tb(e.__traceback__)
        where = ""
        for fr in reversed(tb):
            if "/a5/" in fr.filename:
                where = f"{os.path.basename(fr.filename)}:{fr.lineno}"
                break
        raise Violation(kind, case, observed=f"{type(e).__name__}: {e} @ {where}", expected="no exception")


# ---------------------------------------------------------------------------------------------
# Shard execution
# ---------------------------------------------------------------------------------------------

def _assert_repo():
    import a5
    path = os.path.realpath(a5.__file__)
    if not path.startswith(os.path.realpath(REPO) + os.sep):
        raise HarnessError(f"a5 imported from {path}, expected under {REPO}")


class ShardTimeout(BaseException):
    pass


def _on_alarm(signum, frame):
    raise ShardTimeout()


def _run_task(task):
    prop, stage_name, shard, nshards, seed, tier = task
    t0 = time.time()
    col = Collector()
    # watchdog: a shard that does not come back (e.g. the library loops forever on some input) is reported as
    # inconclusive (harness error, exit 2), never as a violation and never as a pass
    import signal
    limit = int(os.environ.get("VERIF_SHARD_TIMEOUT", "900" if tier == "quick" else "14400"))
    try:
        signal.signal(signal.SIGALRM, _on_alarm)
        signal.alarm(limit)
    except (ValueError, OSError):
        pass
    try:
        _assert_repo()
        mod = importlib.import_module(f"checks.{prop.lower()}")
        stage = {s.name: s for s in mod.plan(tier)}[stage_name]
        ctx = Ctx(shard, nshards, seed, tier, col, stage_name)
        try:
            stage.fn(ctx)
        except Violation as v:
            col.frozen = False
            col.violation(v)
        return {"stage": stage_name, "shard": shard, "ok": True, "col": col.dump(), "wall": time.time() - t0}
    except ShardTimeout:
        return {"stage": stage_name, "shard": shard, "ok": False, "col": col.dump(), "wall": time.time() - t0,
                "error": f"shard did not finish within {limit} s: inconclusive (not a violation)"}
    except BaseException as e:  # noqa: BLE001
        return {"stage": stage_name, "shard": shard, "ok": False, "col": col.dump(), "wall": time.time() - t0,
                "error": f"{type(e).__name__}: {e}\n{traceback.format_exc()}"}
    finally:
        try:
            signal.alarm(0)
        except (ValueError, OSError):
            pass


# ---------------------------------------------------------------------------------------------
# Known findings
# ---------------------------------------------------------------------------------------------

def load_known_findings():
    p = os.path.join(VERIF, "known_findings.json")
    if not os.path.exists(p):
        return {"open": [], "fixed": []}
    with open(p) as f:
        return json.load(f)


def open_findings(prop):
    return [k for k in load_known_findings().get("open", []) if k["property"] == prop]


# ---------------------------------------------------------------------------------------------
# Main
# ---------------------------------------------------------------------------------------------

def _write_violation(prop, v):
    os.makedirs(os.path.join(WORK, "violations"), exist_ok=True)
    h = hashlib.blake2b(json.dumps(v, sort_keys=True, default=repr).encode(), digest_size=6).hexdigest()
    path = os.path.join(WORK, "violations", f"{prop}-{h}.json")
    with open(path, "w") as f:
        json.dump({"property": prop, **v}, f, indent=1, default=repr)
    return path


def _uniq(items):
    out, seen = [], set()
    for x in items:
        k = json.dumps(x, sort_keys=True, default=repr)
        if k not in seen:
            seen.add(k)
            out.append(x)
    return out


def _git_head(path):
    try:
        import subprocess
        return subprocess.run(["git", "-C", path, "rev-parse", "--short", "HEAD"], capture_output=True,
                              text=True, timeout=10).stdout.strip()
    except Exception:  # noqa: BLE001
        return ""


def run_check(prop, tier, seed, only=None, jobs=None):
    t0 = time.time()
    mod = importlib.import_module(f"checks.{prop.lower()}")
    stages = mod.plan(tier)
    if only:
        stages = [s for s in stages if s.name in only]
    tasks = []
    for s in stages:
        for sh in range(s.nshards):
            tasks.append((s.cost, (prop, s.name, sh, s.nshards, seed, tier)))
    tasks.sort(key=lambda t: -t[0])
    tasks = [t[1] for t in tasks]

    jobs = jobs or int(os.environ.get("VERIF_JOBS", "16"))
    total = Collector()
    per_stage = {}
    errors = []
    ctxmp = multiprocessing.get_context("fork")
    with ctxmp.Pool(processes=min(jobs, max(1, len(tasks))), maxtasksperchild=1) as pool:
        for res in pool.imap_unordered(_run_task, tasks):
            ps = per_stage.setdefault(res["stage"], {"evaluations": 0, "cpu_s": 0.0, "shards": 0})
            ps["evaluations"] += res["col"]["evaluations"]
            ps["cpu_s"] = round(ps["cpu_s"] + res["wall"], 2)
            ps["shards"] += 1
            total.merge(res["col"])
            if not res["ok"]:
                errors.append(f"[{res['stage']}#{res['shard']}] {res['error']}")
    for s in stages:
        if s.name in per_stage and s.note:
            per_stage[s.name]["note"] = s.note

    # replay corpus (committed regression inputs) — judged in-process, cheap
    replay_dir = os.path.join(VERIF, "replays", prop)
    n_replayed = 0
    if os.path.isdir(replay_dir) and hasattr(mod, "replay") and not only:
        for fn in sorted(os.listdir(replay_dir)):
            if not fn.endswith(".json"):
                continue
            with open(os.path.join(replay_dir, fn)) as f:
                rec = json.load(f)
            n_replayed += 1
            try:
                mod.replay(rec, total)
            except Violation as v:
                total.violation(v)
            except Exception as e:  # noqa: BLE001
                errors.append(f"[replay {fn}] {type(e).__name__}: {e}\n{traceback.format_exc()}")
    per_stage["replay_corpus"] = {"files": n_replayed}

    # known findings: each open entry is probed; printed only if it still fails in the recorded way
    kf_lines = []
    for kf in open_findings(prop):
        still = None
        if hasattr(mod, "probe_known"):
            try:
                still = mod.probe_known(kf)
            except Exception as e:  # noqa: BLE001
                errors.append(f"[probe {kf['id']}] {type(e).__name__}: {e}")
        if still:
            kf_lines.append(f"KNOWN-FINDING: property={prop} {kf['what']}")

    # health: required generator classes
    health = []
    req = getattr(mod, "REQUIRED_CLASSES", {})
    if not only and not total.violations:
        for cls, (denom_cls, frac) in req.items():
            denom = total.classes.get(denom_cls, 0) if denom_cls else total.evaluations
            have = total.classes.get(cls, 0)
            if denom > 0 and have < frac * denom:
                health.append(f"class {cls!r} under-populated: {have}/{denom} < {frac}")

    # violations: dedupe by kind, write replay files
    seen = set()
    vio_lines = []
    for v in total.violations:
        key = v["kind"]
        if key in seen:
            continue
        seen.add(key)
        path = _write_violation(prop, v)
        vio_lines.append((path, v))

    distinct = total.by_construction + len(total.hashes)
    samples = []
    for cls, ss in sorted(total.samples.items()):
        for x in ss[:2]:
            samples.append({"class": cls, "case": x})
    samples = samples[:60]
    wall = time.time() - t0
    evidence = {
        "property_id": prop,
        "tier": tier,
        "seed": seed,
        "level": "exploration",
        "coverage": {
            "evaluations": total.evaluations,
            "distinct_nontrivial": distinct,
            "rule": getattr(mod, "RULE", ""),
            "samples": samples,
            "classes": dict(sorted(total.classes.items())),
            "worst_observed": {k: {"value": v[0], "case": v[1], "sense": v[2]} for k, v in sorted(total.worst.items())},
            "counters": dict(sorted(total.counters.items())),
            "stages": per_stage,
            "exhaustive": bool(total.exhaustive) and all(total.exhaustive.values()) and getattr(mod, "ALL_EXHAUSTIVE", False),
            "exhaustive_subdomains": {k: v for k, v in sorted(total.exhaustive.items())},
            "known_findings_matched": dict(total.kf_hits),
            "notes": _uniq(total.notes)[:20],
            "repo": REPO,
            "repo_head": _git_head(REPO),
        },
        "assumptions": getattr(mod, "ASSUMPTIONS", []),
        "wall_s": round(wall, 2),
        "violations": len(vio_lines),
    }
    if not only:
        # evidence describes /repo itself; runs against a scratch tree (VERIF_REPO) are kept apart
        evdir = os.path.join(VERIF, "evidence") if os.path.realpath(REPO) == "/repo" else os.path.join(WORK, "evidence-scratch")
        os.makedirs(evdir, exist_ok=True)
        with open(os.path.join(evdir, f"{prop}.json"), "w") as f:
            json.dump(evidence, f, indent=1, default=repr)

    for line in kf_lines:
        print(line)
    for path, v in vio_lines:
        print(f"VIOLATION property={prop} replay={path}")
        print(f"  kind={v['kind']} observed={str(v['observed'])[:300]} expected={str(v['expected'])[:200]} {v['note'][:200]}")
        print(f"  case={json.dumps(v['case'], default=repr)[:600]}")
    print(f"{prop} tier={tier} seed={seed} evaluations={total.evaluations} distinct_nontrivial={distinct} "
          f"violations={len(vio_lines)} wall={wall:.1f}s")
    if vio_lines:
        return 1
    if errors or health:
        for e in errors[:5]:
            print("HARNESS-ERROR:", e[:1500], file=sys.stderr)
        for h in health:
            print("HARNESS-ERROR: generator health:", h, file=sys.stderr)
        return 2
    return 0


def run_replay(prop, path):
    _assert_repo()
    mod = importlib.import_module(f"checks.{prop.lower()}")
    with open(path) as f:
        rec = json.load(f)
    col = Collector()
    try:
        mod.replay(rec, col)
    except Violation as v:
        print(f"VIOLATION property={prop} replay={path}")
        print(f"  kind={v.kind} observed={str(v.observed)[:400]} expected={str(v.expected)[:200]} {v.note[:200]}")
        return 1
    print(f"{prop} replay {path}: property holds for this case")
    return 0


def main(argv=None):
    ap = argparse.ArgumentParser()
    ap.add_argument("prop")
    ap.add_argument("--tier", default=os.environ.get("VERIF_TIER", "quick"), choices=["quick", "thorough"])
    ap.add_argument("--seed", type=int, default=int(os.environ.get("VERIF_SEED", "1") or 1))
    ap.add_argument("--replay")
    ap.add_argument("--only")
    ap.add_argument("--jobs", type=int)
    a = ap.parse_args(argv)
    prop = a.prop.upper()
    try:
        if a.replay:
            return run_replay(prop, a.replay)
        return run_check(prop, a.tier, a.seed, only=a.only.split(",") if a.only else None, jobs=a.jobs)
    except HarnessError as e:
        print(f"HARNESS-ERROR: {e}", file=sys.stderr)
        return 2
    except Exception:  # noqa: BLE001
        traceback.print_exc()
        return 2


if __name__ == "__main__":
    # run as lib.runner (not __main__) so that Violation etc. are the same classes the checks import
    from lib.runner import main as _main
    sys.exit(_main())
