"""Coverage-directed generation: find where, in input space, the library's own branches flip.

Numeric code hides its thresholds (series/acos switch-overs, early-out caps, reflect tests, "near the pole" branches)
at places no generic generator aims at. This module discovers them from the code itself: the *set of executed source
lines and of first-taken branch directions* inside the a5 package is recorded for a call (sys.monitoring LINE and
BRANCH events, each location reported once, so the cost is close to an untraced call); two inputs whose line sets differ are separated by at least one branch boundary,
which is then located by bisection along the great circle between them. A boundary is typed by the symmetric
difference of the two line sets (the lines that distinguish the two sides), so that rare branch types can be sampled
as often as common ones. The discovered boundary points become anchors for the ordinary generators (log-scale
neighbourhoods, cells containing them, corner/edge huggers), and every oracle stays exactly what it was.

Everything is a pure function of the code and of the Hypothesis-drawn arc end points.
"""
import math
import os
import sys

from lib import refgeo

_mon = getattr(sys, "monitoring", None)
_TOOL = 3
_state = {"ready": False, "root": None}


def available():
    return _mon is not None


def _setup():
    if _state["ready"]:
        return
    import a5
    _state["root"] = os.path.dirname(os.path.abspath(a5.__file__)) + os.sep
    try:
        _mon.use_tool_id(_TOOL, "verif-boundary")
    except ValueError:
        pass
    _state["ready"] = True


def line_set(fn):
    """frozenset of (relative file, line) executed inside the a5 package by fn(); exceptions propagate."""
    _setup()
    root = _state["root"]
    seen = set()

    def cb(code, line):
        f = code.co_filename
        if f.startswith(root):
            seen.add((f[len(root):], line))
        return _mon.DISABLE

    def cb_branch(code, src, dst):
        # direction taken the first time each conditional jump executes (catches single-line conditional expressions
        # and short-circuit operators, which line events cannot tell apart)
        f = code.co_filename
        if f.startswith(root):
            seen.add((f[len(root):], f"{code.co_name}@{src}->{dst}"))
        return _mon.DISABLE

    def cb_return(code, offset, retval):
        # discrete decisions that change data, not control flow (which triangle, which quintant, reflect or not):
        # the first small-int / bool value each function returns is part of the signature
        f = code.co_filename
        if f.startswith(root) and (retval is True or retval is False or (type(retval) is int and -64 <= retval <= 64)):
            key = (f[len(root):], code.co_name)
            if key not in first_ret:
                first_ret[key] = retval
                seen.add((f[len(root):], f"{code.co_name} -> {retval!r}"))

    first_ret = {}
    fn()          # warm-up: lazily filled caches must not show up as differences between inputs
    _mon.register_callback(_TOOL, _mon.events.LINE, cb)
    _mon.register_callback(_TOOL, _mon.events.BRANCH, cb_branch)
    _mon.register_callback(_TOOL, _mon.events.PY_RETURN, cb_return)
    _mon.set_events(_TOOL, _mon.events.LINE | _mon.events.BRANCH | _mon.events.PY_RETURN)
    _mon.restart_events()
    try:
        fn()
    finally:
        _mon.set_events(_TOOL, 0)
        _mon.register_callback(_TOOL, _mon.events.LINE, None)
        _mon.register_callback(_TOOL, _mon.events.BRANCH, None)
        _mon.register_callback(_TOOL, _mon.events.PY_RETURN, None)
    return frozenset(seen)


def _mid(a, b):
    va, vb = refgeo.lonlat_to_frame(a), refgeo.lonlat_to_frame(b)
    m = refgeo._norm(tuple(va[i] + vb[i] for i in range(3)))
    return refgeo.frame_to_lonlat(m)


def bisect(sig, a, b, sa=None, sb=None, tol=2e-11, max_iter=60):
    """a, b: geodetic points with different signatures. -> (a', b', sig(a'), sig(b')) with dist(a', b') <= tol rad."""
    sa = sig(a) if sa is None else sa
    sb = sig(b) if sb is None else sb
    for _ in range(max_iter):
        if refgeo.gc_dist(a, b) <= tol:
            break
        m = _mid(a, b)
        if m == a or m == b:
            break
        sm = sig(m)
        if sm == sa:
            a = m
        else:
            b, sb = m, sm          # converge on the boundary nearest to a
    return a, b, sa, sb


def discover(sig, arcs, ignore=()):
    """arcs: iterable of (p, q) geodetic point pairs. Returns a list of boundaries:
    {"type": tuple of 'file:line' strings (symmetric difference), "a": p, "b": q} with a, b within ~1e-11 rad."""
    out = []
    for p, q in arcs:
        try:
            sp, sq = sig(p), sig(q)
        except Exception:  # noqa: BLE001 - a raising call is some other check's finding
            continue
        if sp == sq:
            continue
        try:
            a, b, sa, sb = bisect(sig, p, q, sp, sq)
        except Exception:  # noqa: BLE001
            continue
        delta = tuple(sorted(f"{f}:{ln}" for (f, ln) in (sa ^ sb) if not any(f.startswith(i) for i in ignore)))
        if not delta:
            continue
        out.append({"type": delta, "a": a, "b": b})
    return out


def by_type(boundaries):
    d = {}
    for b in boundaries:
        d.setdefault(b["type"], []).append(b)
    return d


def arcs_strategy():
    """Hypothesis strategy of arcs (pairs of geodetic points): from a base point of the usual mixture to a point at a
    log-uniform distance 1e-6..2 rad in a random direction."""
    from hypothesis import strategies as st
    from lib import gens

    def mk(p, u, bearing):
        base = refgeo.lonlat_to_frame((p["lon"], p["lat"]))
        d = 10.0 ** (-6 + 6.3 * u)
        q = refgeo.offset_point(base, min(d, 2.0), 2 * math.pi * bearing)
        return ((p["lon"], p["lat"]), refgeo.frame_to_lonlat(q))
    unit = st.floats(0, 1, allow_nan=False)
    return st.builds(mk, st.one_of(gens.pts_uniform(), gens.pts_uniform(), gens.pts_base()), unit, unit)


def draw_arcs(seed, n):
    """n arcs drawn by Hypothesis with the given seed (deterministic)."""
    import hypothesis
    from hypothesis import HealthCheck, Phase, given, settings
    out = []

    @hypothesis.seed(seed)
    @settings(max_examples=n + 10, database=None, deadline=None, phases=[Phase.generate], suppress_health_check=list(HealthCheck))
    @given(arcs_strategy())
    def collect(arc):
        out.append(arc)
    collect()
    return out[10:] if len(out) > 10 else out       # the first examples are the simplest ones whatever the seed


# ---------------------------------------------------------------------------------------------
# ready-made signatures and anchor lists for the geometry checks
# ---------------------------------------------------------------------------------------------

def sig_cell(p):
    """Line set of the public lonlat_to_cell at resolution 2 (face choice, projection, one Hilbert digit, search spiral)."""
    import a5
    return line_set(lambda: a5.lonlat_to_cell(p, 2))


def sig_proj(p):
    """Line set of forward + inverse projection of p through its nearest face."""
    from checks import c13
    from a5.core.coordinate_transforms import from_lonlat
    proj, axes = c13._lib()

    def f():
        s = from_lonlat(p)
        F, _G = c13.faces_by_distance(refgeo.lonlat_to_frame(p))
        proj.inverse(proj.forward(s, F), F)
    return line_set(f)


_anchor_cache = {}


def anchors(ctx, which, n_arcs, per_type=4):
    """Discover boundaries for this shard (deterministic in ctx.shard_seed) and return anchors balanced by type:
    list of {"lon","lat","type"} (both sides of every kept boundary)."""
    key = (which, ctx.shard_seed, n_arcs)
    if key in _anchor_cache:
        return _anchor_cache[key]
    if not available():
        _anchor_cache[key] = []
        return []
    sig = sig_cell if which == "cell" else sig_proj
    bs = discover(sig, draw_arcs(ctx.shard_seed, n_arcs))
    out = []
    for t, lst in sorted(by_type(bs).items()):
        for b in lst[:per_type]:
            label = ",".join(t[:3]) + ("..." if len(t) > 3 else "")
            out.append({"lon": b["a"][0], "lat": b["a"][1], "type": label})
            out.append({"lon": b["b"][0], "lat": b["b"][1], "type": label})
    # thin slabs and tolerance bands that signatures cannot separate: operands of the library's comparisons (lib/cmpsearch.py)
    try:
        from lib import cmpsearch
        extra = cmpsearch.anchors(ctx, which, max(4, n_arcs // 25))
        thin = [a for a in extra if a["type"].endswith(":slab") or a["type"].endswith(":touch")]
        out = out + extra + thin * 3          # thin regions are reachable through these anchors only: sample them more often
    except Exception:  # noqa: BLE001 - the search is an aid for aiming; without it the stage runs on its other anchors
        ctx.col.count("cmp_search_unavailable")
    _anchor_cache[key] = out
    ctx.col.count(f"branch_boundaries_found_{which}", len(bs))
    ctx.col.count(f"branch_boundary_types_{which}", len(by_type(bs)))
    return out


def anchor_points(anchor_list):
    """Strategy of points {"lon","lat","cls"} at log-scale distances (0, 1e-12..1e-1 rad) from discovered anchors."""
    from hypothesis import strategies as st
    unit = st.floats(0, 1, allow_nan=False)

    def mk(a, u, bearing, exact):
        if exact:
            return {"lon": a["lon"], "lat": a["lat"], "cls": "branch_boundary"}
        d = 10.0 ** (-12 + 11 * u)
        v = refgeo.offset_point(refgeo.lonlat_to_frame((a["lon"], a["lat"])), d, 2 * math.pi * bearing)
        lon, lat = refgeo.frame_to_lonlat(v)
        return {"lon": lon, "lat": max(-90.0, min(90.0, lat)), "cls": "branch_boundary"}
    return st.builds(mk, st.sampled_from(anchor_list), unit, unit, st.booleans())
