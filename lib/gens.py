"""Shared Hypothesis strategies (DESIGN.md §5). All randomness comes from Hypothesis draws."""
import math

from hypothesis import strategies as st

from lib import refids


def resolutions(lo=0, hi=29):
    """Resolutions with extra weight on aperture changes (0,1,2) and the precision end (26..29)."""
    base = st.integers(lo, hi)
    special = [r for r in (0, 1, 2, 3, 26, 27, 28, 29) if lo <= r <= hi]
    if not special:
        return base
    return st.one_of(base, base, st.sampled_from(special))


def _digits_to_S(digs):
    S = 0
    for d in digs:
        S = (S << 2) | d
    return S


def hilbert_S(h):
    """S in [0, 4^h) built from quaternary digit patterns aimed at shift/mask and digit-shift logic."""
    if h <= 0:
        return st.just(0)
    lim = 4 ** h
    dig = st.integers(0, 3)

    def single_bit(b):
        return 1 << b

    pats = [
        st.just(0),
        st.just(lim - 1),
        st.integers(0, 2 * h - 1).map(single_bit),
        st.integers(0, 2 * h - 1).map(lambda b: (lim - 1) ^ (1 << b)),
        st.integers(1, 2 * h).map(lambda k: ((1 << k) - 1) << (2 * h - k)),           # top-k bits set
        st.integers(1, 2 * h).map(lambda k: (1 << k) - 1),                              # low-k bits set
        dig.map(lambda d: _digits_to_S([d] * h)),                                         # repeated digit
        st.tuples(dig, dig).map(lambda t: _digits_to_S([t[i % 2] for i in range(h)])),    # alternating
        st.tuples(dig, dig).map(lambda t: _digits_to_S([t[0]] + [t[1]] * (h - 1))),       # 0333.. / 1000..
        st.tuples(st.integers(0, h - 1), st.integers(1, 3)).map(lambda t: t[1] << (2 * t[0])),  # one non-zero digit
        st.tuples(st.integers(0, lim - 1), st.integers(0, h), dig).map(                  # random prefix + patterned suffix
            lambda t: ((t[0] >> (2 * t[1])) << (2 * t[1])) | _digits_to_S([t[2]] * t[1])),
        st.integers(0, lim - 1),
        st.integers(0, lim - 1),
    ]
    return st.one_of(*pats)


def hilbert_S_any():
    return st.integers(0, 4 ** 28 - 1)


def cell_tuple(lo=0, hi=29, allow_world=False):
    """(res, face, q, S) by id construction."""
    def at(r):
        if r == -1:
            return st.just((-1, 0, 0, 0))
        if r == 0:
            return st.integers(0, 11).map(lambda f: (0, f, 0, 0))
        if r == 1:
            return st.tuples(st.integers(0, 11), st.integers(0, 4)).map(lambda t: (1, t[0], t[1], 0))
        return st.tuples(st.integers(0, 11), st.integers(0, 4), hilbert_S(r - 1)).map(lambda t: (r, t[0], t[1], t[2]))
    rs = resolutions(max(lo, 0), hi)
    if allow_world and lo <= -1:
        rs = st.one_of(rs, rs, rs, st.just(-1))
    return rs.flatmap(at)


def cell_ids(lo=0, hi=29, allow_world=False):
    return cell_tuple(lo, hi, allow_world).map(lambda t: refids.enc(*t))


def descend(cid, path_digits):
    """Follow child choices (each an int, reduced modulo the number of children) from cid."""
    cur = cid
    for d in path_digits:
        res, face, q, S = refids.dec(cur)
        if res >= refids.MAX_ENCODABLE:
            break
        if res == -1:
            cur = refids.enc(0, d % 12)
        elif res == 0:
            cur = refids.enc(1, face, d % 5)
        elif res == 1:
            cur = refids.enc(2, face, q, d % 4)
        else:
            cur = refids.enc(res + 1, face, q, (S << 2) | (d % 4))
    return cur


# ---------------------------------------------------------------------------------------------
# antichains
# ---------------------------------------------------------------------------------------------

@st.composite
def antichains(draw, max_depth=5, max_cells=200, deep_graft=True):
    """Antichain of the hierarchy by recursive split / keep / drop from the world cell.

    Produces complete sibling groups with substantial probability (keep-all below a split).
    """
    out = []
    budget = [max_cells]
    p_split = draw(st.sampled_from([0.3, 0.5, 0.7, 0.9]))
    p_keep = draw(st.sampled_from([0.3, 0.6, 0.9, 1.0]))
    # one random stream drawn up-front keeps Hypothesis overhead low and shrinks well
    stream = draw(st.lists(st.integers(0, 999), min_size=40, max_size=400))
    pos = [0]

    def nxt():
        v = stream[pos[0] % len(stream)] if stream else 0
        pos[0] += 1
        return v / 1000.0

    def rec(cid, depth):
        if budget[0] <= 0:
            return
        res = refids.dec(cid)[0]
        r = nxt()
        if depth < max_depth and res < refids.MAX_ENCODABLE and r < p_split:
            kids = refids.children(cid, res + 1)
            # keep-all (complete group) with probability, else each child decided on its own
            if nxt() < 0.35:
                for k in kids:
                    if nxt() < 0.25 and depth + 1 < max_depth:
                        rec(k, depth + 1)
                    else:
                        out.append(k)
                        budget[0] -= 1
            else:
                for k in kids:
                    rec(k, depth + 1)
        elif nxt() < p_keep:
            out.append(cid)
            budget[0] -= 1

    rec(0, 0)
    if deep_graft and draw(st.booleans()):
        # graft a deep sub-tree: take a cell at res 18..27 and add a complete/incomplete group under it
        base = draw(cell_tuple(18, 27))
        bid = refids.enc(*base)
        if not any(refids.is_ancestor_or_equal(c, bid) or refids.is_ancestor_or_equal(bid, c) for c in out):
            kids = refids.children(bid, base[0] + 1)
            gk = refids.children(kids[0], base[0] + 2)
            drop = draw(st.integers(0, 5))
            chosen = kids[1:] + [g for i, g in enumerate(gk) if i != drop]
            out.extend(chosen)
    return out


@st.composite
def with_overlaps(draw, base):
    cells = list(draw(base))
    if not cells:
        return cells
    n = draw(st.integers(1, 4))
    for _ in range(n):
        c = cells[draw(st.integers(0, len(cells) - 1))]
        res = refids.dec(c)[0]
        if draw(st.booleans()) and res >= 0:
            a = draw(st.integers(-1, res))
            cells.append(refids.parent(c, a))
        elif res < refids.MAX_ENCODABLE:
            b = min(refids.MAX_ENCODABLE, res + draw(st.integers(1, 2)))
            kids = refids.children(c, b)
            k = draw(st.integers(1, len(kids)))
            start = draw(st.integers(0, len(kids) - k))
            cells.extend(kids[start:start + k])
    return cells


@st.composite
def orderings(draw, base):
    cells = list(draw(base))
    if not cells:
        return cells
    cells = draw(st.permutations(cells))
    ndup = draw(st.integers(0, 3))
    for _ in range(ndup):
        cells.insert(draw(st.integers(0, len(cells))), cells[draw(st.integers(0, len(cells) - 1))])
    return list(cells)


# ---------------------------------------------------------------------------------------------
# points on the globe (geodetic lon/lat degrees), DESIGN.md §5
# ---------------------------------------------------------------------------------------------
from lib import refgeo  # noqa: E402

FRAME_LL = [refgeo.frame_to_lonlat(v) for v in refgeo.FRAME]
_unit = st.floats(0.0, 1.0, allow_nan=False, allow_infinity=False, allow_subnormal=False)
_lon = st.floats(-180.0, 180.0, allow_nan=False, allow_infinity=False)


def _pt(lon, lat, cls):
    lat = max(-90.0, min(90.0, lat))
    return {"lon": lon, "lat": lat, "cls": cls}


def pts_uniform():
    return st.builds(lambda lon, u: _pt(lon, math.degrees(math.asin(2 * u - 1)), "uniform"), _lon, _unit)


def pts_polar():
    def mk(lon, u, south):
        colat = 10.0 ** (-10 + 11 * u)        # 1e-10 .. 10 degrees
        lat = 90.0 - colat
        return _pt(lon, -lat if south else lat, "polar")
    return st.builds(mk, _lon, _unit, st.booleans())


def pts_pole_exact():
    return st.builds(lambda lon, south: _pt(lon, -90.0 if south else 90.0, "pole_exact"), _lon, st.booleans())


def pts_frame_exact():
    return st.integers(0, 61).map(lambda i: _pt(FRAME_LL[i][0], FRAME_LL[i][1], "frame_exact"))


def pts_frame_nbhd():
    def mk(i, u, b):
        d = 10.0 ** (-12 + 11 * u)            # 1e-12 .. 1e-1 rad
        v = refgeo.offset_point(refgeo.FRAME[i], d, 2 * math.pi * b)
        lon, lat = refgeo.frame_to_lonlat(v)
        return _pt(lon, lat, "frame_nbhd")
    return st.builds(mk, st.integers(0, 61), _unit, _unit)


def pts_antimeridian():
    def mk(k, sign, u, exact):
        lon = 180.0 if exact else 180.0 - 10.0 ** (-k)
        return _pt(sign * lon, math.degrees(math.asin(2 * u - 1)), "antimeridian")
    return st.builds(mk, st.floats(0, 13, allow_nan=False), st.sampled_from([-1.0, 1.0]), _unit, st.booleans())


def _adjacent_vertex_pairs():
    vs = refgeo.FACE_VERTICES
    out = []
    for i in range(len(vs)):
        for j in range(i + 1, len(vs)):
            d = refgeo._dot(vs[i], vs[j])
            if d > 0.74:          # adjacent dodecahedron vertices are 41.8 degrees apart (cos = 0.745)
                out.append((vs[i], vs[j]))
    assert len(out) == 30, len(out)
    return out


_EDGES = _adjacent_vertex_pairs()


def pts_face_edge():
    """Points along a dodecahedron edge, displaced sideways by 1e-13..1e-2 rad (either side)."""
    def mk(e, t, u, side):
        a, b = _EDGES[e]
        base = refgeo.slerp_vec(a, b, t)
        n = refgeo._norm(refgeo._cross(a, b))
        d = 10.0 ** (-13 + 11 * u) * (1 if side else -1)
        v = refgeo._norm(tuple(base[i] + d * n[i] for i in range(3)))
        lon, lat = refgeo.frame_to_lonlat(v)
        return _pt(lon, lat, "face_edge")
    return st.builds(mk, st.integers(0, 29), _unit, _unit, st.booleans())


def edge_scaled_cases(lo=2, hi=29):
    """(point, res) pairs whose point lies within +-1.5 cell widths of a dodecahedron edge: the cell found there
    straddles or hugs the face edge at every resolution (where the reflect/unfold logic of the projection decides)."""
    def mk(e, t, u, r):
        a, b = _EDGES[e]
        base = refgeo.slerp_vec(a, b, t)
        n = refgeo._norm(refgeo._cross(a, b))
        d = (2 * u - 1) * 1.5 * refgeo.cell_width(r)
        v = refgeo._norm(tuple(base[i] + d * n[i] for i in range(3)))
        lon, lat = refgeo.frame_to_lonlat(v)
        return {"lon": lon, "lat": max(-90.0, min(90.0, lat)), "res": r, "cls": "face_edge_scaled"}
    return st.builds(mk, st.integers(0, 29), _unit, _unit, resolutions(lo, hi))


def pts_seam():
    """Points along a triangle seam (face centre -> vertex or edge midpoint), displaced sideways."""
    def mk(f, j, kind, t, u, side):
        c = refgeo.FACE_CENTRES[f]
        pool = refgeo.FACE_VERTICES if kind else refgeo.EDGE_MIDPOINTS
        w = sorted(pool, key=lambda x: -refgeo._dot(x, c))[j % 5]
        base = refgeo.slerp_vec(c, w, t)
        n = refgeo._norm(refgeo._cross(c, w))
        d = 10.0 ** (-13 + 11 * u) * (1 if side else -1)
        v = refgeo._norm(tuple(base[i] + d * n[i] for i in range(3)))
        lon, lat = refgeo.frame_to_lonlat(v)
        return _pt(lon, lat, "seam")
    return st.builds(mk, st.integers(0, 11), st.integers(0, 4), st.booleans(), _unit, _unit, st.booleans())


def pts_round():
    """Round coordinates and their immediate surroundings: longitude and latitude on multiples of 7.5 degrees (equator,
    prime meridian, tropics-like parallels: where trigonometric terms of series and rotations vanish or peak, and where
    users put test points), each optionally displaced by 1e-13..1e-6 degrees."""
    def mk(i, j, ui, uj, si, sj, how):
        lon = -180.0 + 7.5 * i
        lat = -90.0 + 7.5 * j
        if how & 1:
            lon += (1 if si else -1) * 10.0 ** (-13 + 7 * ui)
        if how & 2:
            lat += (1 if sj else -1) * 10.0 ** (-13 + 7 * uj)
        return _pt(max(-180.0, min(180.0, lon)), lat, "round")
    return st.builds(mk, st.integers(0, 48), st.integers(0, 24), _unit, _unit, st.booleans(), st.booleans(), st.integers(0, 3))


_AXES = {}


def pts_face_axes():
    """Points on and next to the rays of azimuth m*18 degrees in each face's own plane coordinates (x = 0, y = 0, the
    seams at m*36 and the mid-triangle directions): where atan2-like formulas cancel and where polar and Cartesian forms
    of the same point disagree first. Aimed with the library's own inverse projection (aiming only: a wrong aim tests a
    different, equally legitimate point); sideways displacement 1e-13..1e-3 face units."""
    def mk(face, m, ur, u, side, exact):
        try:
            if not _AXES:
                from a5.projections.dodecahedron import DodecahedronProjection
                from a5.core.coordinate_transforms import to_lonlat
                _AXES.update(proj=DodecahedronProjection(), to_lonlat=to_lonlat)
            a = math.radians(18 * m)
            r = 0.6180339887498949 * (0.002 + 0.996 * ur)            # within the inscribed circle of the face pentagon
            d = 0.0 if exact else (1 if side else -1) * 10.0 ** (-13 + 10 * u)
            q = (r * math.cos(a) - d * math.sin(a), r * math.sin(a) + d * math.cos(a))
            lon, lat = _AXES["to_lonlat"](_AXES["proj"].inverse(q, face))
            if not (math.isfinite(lon) and math.isfinite(lat)):
                raise ValueError
            lon = math.remainder(lon, 360.0)
        except Exception:  # noqa: BLE001 - aiming only
            lon, lat = FRAME_LL[face][0], FRAME_LL[face][1]
        return _pt(lon, lat, "face_axis")
    return st.builds(mk, st.integers(0, 11), st.integers(0, 19), _unit, _unit, st.booleans(), st.booleans())


def pts_base():
    return st.one_of(pts_uniform(), pts_polar(), pts_frame_nbhd(), pts_frame_nbhd(), pts_antimeridian(),
                     pts_frame_exact(), pts_pole_exact(), pts_face_edge(), pts_face_edge(), pts_seam(), pts_round(), pts_face_axes())


def pts_wrapped():
    def mk(p, s):
        lon = p["lon"] + s
        if not (-540.0 <= lon <= 540.0):
            lon = p["lon"]
        return {"lon": lon, "lat": p["lat"], "cls": p["cls"] + "+wrap" if lon != p["lon"] else p["cls"]}
    return st.builds(mk, pts_base(), st.sampled_from([360.0, -360.0]))


def points():
    return st.one_of(pts_base(), pts_base(), pts_base(), pts_wrapped())


@st.composite
def block_refinements(draw):
    """Antichain over a block of 64 (or 256) consecutive cells of one resolution: most block cells are 'filler' that can
    never merge (3 of their 4 children), a few 'sites' are complete (whole, all 4 children, or all 16 grandchildren) so
    that merges happen at chosen list positions: at the very head, at the very tail, adjacent, or far apart, and
    cascade (a merged parent completing its own sibling group) when a whole aligned group of four is complete.
    Lists are 100-800 cells long."""
    span = draw(st.sampled_from([3, 3, 4]))
    base = draw(cell_ids(1, 29 - span - 2))
    r = refids.res_of(base) + span
    pool = refids.children(base, r)
    n = len(pool)
    ngroups = n // 4
    state = {}                                  # pool index -> state
    nsites = draw(st.integers(1, 4))
    for _ in range(nsites):
        where = draw(st.sampled_from(["head", "tail", "random", "random"]))
        g = {"head": 0, "tail": ngroups - 1}.get(where)
        if g is None:
            g = draw(st.integers(0, ngroups - 1))
        kind = draw(st.sampled_from(["cascade", "cascade", "single", "partial"]))
        idx = [4 * g + i for i in range(4)]
        if kind == "cascade":                   # whole group complete: some members expanded, the others whole
            for i in idx:
                state[i] = draw(st.sampled_from(["whole", "kids", "kids", "grandkids"]))
        elif kind == "single":                  # one member's children complete, the group itself incomplete
            state[idx[draw(st.integers(0, 3))]] = "kids"
        else:                                   # three complete members, the fourth filler
            for i in idx[:3]:
                state[i] = draw(st.sampled_from(["whole", "kids"]))
    drop_some = draw(st.booleans())
    out = []
    for i, c in enumerate(pool):
        stt = state.get(i, "filler")
        if stt == "whole":
            out.append(c)
        elif stt == "kids":
            out.extend(refids.children(c, r + 1))
        elif stt == "grandkids":
            out.extend(refids.children(c, r + 2))
        else:
            kids = refids.children(c, r + 1)
            if drop_some and i % 7 == 3:
                continue
            out.extend(kids[:3] if i % 2 else kids[1:])
    return out


@st.composite
def spines(draw):
    """Deepest cascades: a root (the world cell or any cell) refined along one path down to a bottom resolution
    (often 29): at every level the siblings of the path cell are kept whole and the path cell is split further, so the
    list tiles the root exactly and compaction has to merge once per level, bottom-up. Optionally one sibling is
    dropped at one level (the cascade must then stop exactly there), or the root's own siblings are added."""
    root = 0 if draw(st.integers(0, 2)) == 0 else draw(cell_ids(0, 20))
    r0 = refids.res_of(root)
    bottom = draw(st.sampled_from([29, 29, 28, min(29, r0 + 3), min(29, r0 + 12)]))
    bottom = max(bottom, r0 + 1)
    out = []
    cur = root
    drop_level = draw(st.sampled_from([None, None, draw(st.integers(r0 + 1, bottom))]))
    for r in range(r0 + 1, bottom + 1):
        kids = refids.children(cur, r)
        k = draw(st.integers(0, len(kids) - 1))
        for i, c in enumerate(kids):
            if i == k and r < bottom:
                continue
            if drop_level == r and i == (k + 1) % len(kids):
                continue
            out.append(c)
        cur = kids[k]
    return out


@st.composite
def near_groups(draw):
    """A sibling group that is complete except for one member, which is represented only by one deep descendant (or by
    a few of them) reached along a structured path (all-first, all-last, 2000.., 1333.., random): the region is almost
    the parent, and an implementation that detects groups arithmetically must not mistake the stand-in for the sibling.
    Optionally wrapped in the remaining siblings of the parent's own group (so that a wrong merge cascades)."""
    r = draw(st.sampled_from([0, 1, 2, 2, 3, 3, 4, 6, 12, 20]))
    if r == 0:
        kids = refids.children(0, 0)
    else:
        parent = draw(cell_ids(r - 1, r - 1))
        kids = refids.children(parent, r)
    miss = draw(st.integers(0, len(kids) - 1))
    x = kids[miss]
    bottom = draw(st.sampled_from([29, 29, 28, 27, 26, min(29, r + 1), min(29, r + 5)]))
    bottom = max(bottom, r + 1)
    style = draw(st.sampled_from(["first", "last", "2000", "1333", "0333", "3000", "random"]))
    cur = x
    for lvl in range(r + 1, bottom + 1):
        ks = refids.children(cur, lvl)
        j = lvl - (r + 1)
        if style == "first":
            i = 0
        elif style == "last":
            i = len(ks) - 1
        elif style in ("2000", "1333", "0333", "3000"):
            head, tail = int(style[0]), int(style[1])
            i = (head if j == 0 else tail) % len(ks)
        else:
            i = draw(st.integers(0, len(ks) - 1))
        cur = ks[i]
    out = [k for i, k in enumerate(kids) if i != miss]
    out.insert(miss if draw(st.booleans()) else len(out), cur)
    if draw(st.integers(0, 3)) == 0 and refids.res_of(cur) >= 1:
        # a second stand-in: a sibling of the deep descendant
        sibs = refids.children(refids.parent(cur, refids.res_of(cur) - 1), refids.res_of(cur))
        out.append(sibs[(sibs.index(cur) + 1) % len(sibs)])
    if r >= 1 and draw(st.booleans()):
        up = refids.children(refids.parent(kids[0], r - 2), r - 1) if r >= 2 else (refids.children(0, 0) if r == 1 else [])
        out += [u for u in up if u != refids.parent(kids[0], r - 1)]
    return out
