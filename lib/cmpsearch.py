"""Comparison-operand guided search: find where, in input space, the operands of the library's own numeric comparisons
meet - including thin slabs that line/branch signatures (lib/boundary.py) cannot see.

lib/boundary.py separates two inputs when they execute different lines or take a jump differently and bisects between
them. A region thinner than anything the arcs' end points ever hit (`abs(t - 0.5) < 1e-9`, `abs(term) < 1e-15`, a
tolerance band around a seam) has the same signature on both sides and stays invisible. The classic remedy of
search-based testing is the *branch distance*: for a comparison `a < b` the value a - b is a continuous function of the
input, and it dips towards zero as the input approaches the region even while the branch outcome does not change.

How it works (all inside a forked child, so the process that judges never runs instrumented code):
  * the a5 package is re-imported through an import hook that rewrites every single-operator numeric comparison
    `a OP b` (OP in <, <=, >, >=) into `__vcmp__(site, a, b, op)`, which evaluates the comparison unchanged and records
    a - b for the first few executions of the site and the execution with the smallest |a - b|; every division `a / b`
    records its divisor b and every math.sqrt / log / acos / asin call the distance of its argument from the edge of the
    domain, which are branch distances of the same kind (poles of rational forms, vanishing norms, clamped arguments);
  * a driver (projection round trip, or lonlat_to_cell + ring + centre at resolution 2) is evaluated at 9 points of a
    Hypothesis-drawn great-circle arc; for every recorded channel
      - a sign change between neighbouring samples is bisected (a threshold crossing),
      - a local minimum of |a - b| is followed by golden-section search; a V-shaped dip (the distance keeps shrinking
        in proportion to the bracket) is followed to the end, and if the sign flips on the way the slab has been entered:
        both its edges are then bisected. A smooth minimum that stalls above zero is dropped after 12 evaluations;
  * the meeting points are returned as anchors {"lon","lat","type"} for the ordinary generators; oracles are untouched.
Everything is a pure function of the code and the Hypothesis-drawn arcs.
"""
import ast
import json
import math
import os
import sys

from lib import refgeo

OPS = {ast.Lt: 0, ast.LtE: 1, ast.Gt: 2, ast.GtE: 3}
MAX_EXEC = 6
GOLD = 0.3819660112501051


class _Rewriter(ast.NodeTransformer):
    def __init__(self, rel, sites):
        self.rel = rel
        self.sites = sites

    def visit_Compare(self, node):
        self.generic_visit(node)
        if len(node.ops) != 1 or type(node.ops[0]) not in OPS:
            return node
        self.sites.append(f"{self.rel}:{node.lineno}:{node.col_offset}:cmp")
        call = ast.Call(func=ast.Name(id="__vcmp__", ctx=ast.Load()),
                        args=[ast.Constant(len(self.sites) - 1), node.left, node.comparators[0], ast.Constant(OPS[type(node.ops[0])])],
                        keywords=[])
        return ast.copy_location(call, node)


    def visit_BinOp(self, node):
        # a / b: the divisor's distance from zero is a branch distance too (poles of rational forms, vanishing norms)
        self.generic_visit(node)
        if not isinstance(node.op, ast.Div):
            return node
        self.sites.append(f"{self.rel}:{node.lineno}:{node.col_offset}:div")
        call = ast.Call(func=ast.Name(id="__vdiv__", ctx=ast.Load()),
                        args=[ast.Constant(len(self.sites) - 1), node.left, node.right], keywords=[])
        return ast.copy_location(call, node)

    def visit_Call(self, node):
        # math.sqrt / acos / asin / log of one argument: distance of the argument from the edge of the domain
        self.generic_visit(node)
        f = node.func
        if (isinstance(f, ast.Attribute) and isinstance(f.value, ast.Name) and f.value.id == "math" and f.attr in _EDGE
                and len(node.args) == 1 and not node.keywords and not isinstance(node.args[0], ast.Starred)):
            self.sites.append(f"{self.rel}:{node.lineno}:{node.col_offset}:{f.attr}")
            call = ast.Call(func=ast.Name(id="__vfun__", ctx=ast.Load()),
                            args=[ast.Constant(len(self.sites) - 1), ast.Constant(_EDGE[f.attr]), f, node.args[0]], keywords=[])
            return ast.copy_location(call, node)
        return node


_EDGE = {"sqrt": 0, "log": 0, "acos": 1, "asin": 1}


class _Recorder:
    def __init__(self):
        self.rec = {}
        self.cnt = {}
        self.on = False

    def __call__(self, site, a, b, op):
        if op == 0:
            r = a < b
        elif op == 1:
            r = a <= b
        elif op == 2:
            r = a > b
        else:
            r = a >= b
        if self.on:
            ta, tb = type(a), type(b)
            if (ta is float or ta is int) and (tb is float or tb is int):
                try:
                    d = float(a - b)
                except OverflowError:
                    return r
                if d == d and d not in (math.inf, -math.inf):
                    k = self.cnt.get(site, 0)
                    self.cnt[site] = k + 1
                    if k < MAX_EXEC:
                        self.rec[(site, k)] = d
                    m = self.rec.get((site, -1))
                    if m is None or abs(d) < abs(m):
                        self.rec[(site, -1)] = d
        return r

    def _note(self, site, d):
        if d == d and d not in (math.inf, -math.inf):
            k = self.cnt.get(site, 0)
            self.cnt[site] = k + 1
            if k < MAX_EXEC:
                self.rec[(site, k)] = d
            m = self.rec.get((site, -1))
            if m is None or abs(d) < abs(m):
                self.rec[(site, -1)] = d

    def div(self, site, a, b):
        if self.on:
            tb = type(b)
            if tb is float or tb is int:
                try:
                    self._note(site, float(b))
                except OverflowError:
                    pass
        return a / b

    def fun(self, site, kind, f, x):
        if self.on:
            tx = type(x)
            if tx is float or tx is int:
                try:
                    self._note(site, float(x) if kind == 0 else 1.0 - abs(float(x)))
                except OverflowError:
                    pass
        return f(x)

    def run(self, fn):
        self.rec = {}
        self.cnt = {}
        self.on = True
        try:
            fn()
        except Exception:  # noqa: BLE001 - a raising call is some other check's finding
            pass
        finally:
            self.on = False
        return self.rec


def _instrument():
    """Re-import a5 with rewritten comparisons (call in a forked child only). -> (recorder, sites)."""
    import builtins
    import importlib
    import importlib.machinery as mach
    import a5
    root = os.path.dirname(os.path.abspath(a5.__file__)) + os.sep
    sites = []
    recorder = _Recorder()
    builtins.__vcmp__ = recorder
    builtins.__vdiv__ = recorder.div
    builtins.__vfun__ = recorder.fun

    class Loader(mach.SourceFileLoader):
        def get_code(self, fullname):
            path = self.get_filename(fullname)
            data = self.get_data(path)
            if not path.startswith(root):
                return super().get_code(fullname)
            tree = ast.parse(data, filename=path)
            tree = _Rewriter(path[len(root):], sites).visit(tree)
            ast.fix_missing_locations(tree)
            return compile(tree, path, "exec", dont_inherit=True)

    details = [(mach.ExtensionFileLoader, mach.EXTENSION_SUFFIXES), (Loader, mach.SOURCE_SUFFIXES),
               (mach.SourcelessFileLoader, mach.BYTECODE_SUFFIXES)]
    sys.path_hooks.insert(0, mach.FileFinder.path_hook(*details))
    sys.path_importer_cache.clear()
    for name in [n for n in sys.modules if n == "a5" or n.startswith("a5.")]:
        del sys.modules[name]
    importlib.invalidate_caches()
    importlib.import_module("a5")
    return recorder, sites


def _drivers():
    import a5
    from a5.core.coordinate_transforms import from_lonlat, to_lonlat
    from a5.core.origin import origins
    from a5.projections.dodecahedron import DodecahedronProjection
    proj = DodecahedronProjection()
    axes = []
    for o in origins:
        th, ph = o.axis
        axes.append((math.sin(ph) * math.cos(th), math.sin(ph) * math.sin(th), math.cos(ph)))

    def drv_proj(p):
        s = from_lonlat(p)
        v = (math.sin(s[1]) * math.cos(s[0]), math.sin(s[1]) * math.sin(s[0]), math.cos(s[1]))
        order = sorted(range(12), key=lambda i: -(v[0] * axes[i][0] + v[1] * axes[i][1] + v[2] * axes[i][2]))
        for f in order[:2]:
            to_lonlat(proj.inverse(proj.forward(s, f), f))

    def drv_cell(p):
        c = a5.lonlat_to_cell(p, 2)
        a5.cell_to_boundary(c, {"segments": 2, "closed_ring": False})
        a5.cell_to_lonlat(c)

    from a5.projections.authalic import AuthalicProjection
    auth = AuthalicProjection()

    def drv_auth(p):
        phi = math.radians(p[1])
        auth.inverse(auth.forward(phi))
        to_lonlat(from_lonlat(p))

    return {"proj": drv_proj, "cell": drv_cell, "auth": drv_auth}


def _point(va, vb, s):
    """Point at parameter s on the great circle from va to vb (unit vectors) as (lon, lat)."""
    w = refgeo.slerp_vec(va, vb, s)
    return refgeo.frame_to_lonlat(w)


def _search(recorder, sites, drv, arcs, per_site=3):
    found = []
    per = {}

    def ev(va, vb, s):
        p = _point(va, vb, s)
        return recorder.run(lambda: drv(p))

    def add(kind, key, va, vb, s):
        site = key[0]
        per[(site, kind)] = per.get((site, kind), 0) + 1
        lon, lat = _point(va, vb, s)
        found.append({"lon": lon, "lat": max(-90.0, min(90.0, lat)), "type": f"cmp:{sites[site]}:{kind}"})

    def bisect(va, vb, key, s0, d0, s1, d1):
        # d0, d1 of opposite sign (or one zero); -> parameter next to the crossing
        for _ in range(60):
            if abs(s1 - s0) < 1e-15:
                break
            sm = 0.5 * (s0 + s1)
            if sm == s0 or sm == s1:
                break
            dm = ev(va, vb, sm).get(key)
            if dm is None:
                return None
            if (dm < 0) == (d0 < 0):
                s0, d0 = sm, dm
            else:
                s1, d1 = sm, dm
        return s0, s1

    for (p, q) in arcs:
        va, vb = refgeo.lonlat_to_frame(p), refgeo.lonlat_to_frame(q)
        n = 8
        ss = [i / n for i in range(n + 1)]
        samples = [ev(va, vb, s) for s in ss]
        keys = set()
        for r in samples:
            keys.update(r)
        for key in sorted(keys):
            ds = [r.get(key) for r in samples]
            for i in range(n):
                a, b = ds[i], ds[i + 1]
                if a is None or b is None or per.get((key[0], "cross"), 0) >= 2 * per_site:
                    continue
                if (a < 0) != (b < 0):
                    r = bisect(va, vb, key, ss[i], a, ss[i + 1], b)
                    if r is not None:
                        add("cross", key, va, vb, r[0])
                        add("cross", key, va, vb, r[1])
            for i in range(1, n):
                a, b, c = ds[i - 1], ds[i], ds[i + 1]
                if a is None or b is None or c is None or per.get((key[0], "slab"), 0) >= 5 * per_site:
                    continue
                if (a < 0) != (b < 0) or (b < 0) != (c < 0):
                    continue
                if not (abs(b) < abs(a) and abs(b) < abs(c)):
                    continue
                # golden-section search for the minimum of |d| in [ss[i-1], ss[i+1]]
                neg = b < 0
                lo, hi = ss[i - 1], ss[i + 1]
                x1 = lo + GOLD * (hi - lo)
                x2 = hi - GOLD * (hi - lo)
                f1 = ev(va, vb, x1).get(key)
                f2 = ev(va, vb, x2).get(key)
                start = abs(b)
                flipped = None
                it = 0
                while f1 is not None and f2 is not None and it < 70:
                    it += 1
                    if (f1 < 0) != neg:
                        flipped = (x1, f1)
                        break
                    if (f2 < 0) != neg:
                        flipped = (x2, f2)
                        break
                    if abs(f1) < abs(f2):
                        hi, x2, f2 = x2, x1, f1
                        x1 = lo + GOLD * (hi - lo)
                        f1 = ev(va, vb, x1).get(key)
                    else:
                        lo, x1, f1 = x1, x2, f2
                        x2 = hi - GOLD * (hi - lo)
                        f2 = ev(va, vb, x2).get(key)
                    if it == 12 and min(abs(f1 or start), abs(f2 or start)) > 0.02 * start:
                        break                       # a smooth minimum that stalls above zero
                    if hi - lo < 1e-15:
                        break
                if flipped is not None:
                    # inside the slab: locate both edges
                    for (s_out, d_out) in ((ss[i - 1], a), (ss[i + 1], c)):
                        r = bisect(va, vb, key, s_out, d_out, flipped[0], flipped[1])
                        if r is not None:
                            add("slab", key, va, vb, r[0])
                            add("slab", key, va, vb, r[1])
                    add("slab", key, va, vb, flipped[0])
                elif f1 is not None and f2 is not None and min(abs(f1), abs(f2)) < 1e-7 * start:
                    add("touch", key, va, vb, x1 if abs(f1) < abs(f2) else x2)
    return found


def discover(which, arcs):
    """Runs the search in a forked child. -> list of anchors (possibly empty); never raises."""
    r, w = os.pipe()
    pid = os.fork()
    if pid == 0:
        code = 0
        try:
            os.close(r)
            recorder, sites = _instrument()
            drv = _drivers()[which]
            out = _search(recorder, sites, drv, arcs)
            with os.fdopen(w, "w") as f:
                json.dump({"anchors": out, "sites": len(sites)}, f)
        except BaseException as e:  # noqa: BLE001
            try:
                with os.fdopen(w, "w") as f:
                    json.dump({"anchors": [], "error": f"{type(e).__name__}: {e}"}, f)
            except Exception:  # noqa: BLE001
                pass
            code = 3
        os._exit(code)
    os.close(w)
    with os.fdopen(r) as f:
        data = f.read()
    os.waitpid(pid, 0)
    try:
        return json.loads(data)
    except Exception:  # noqa: BLE001
        return {"anchors": [], "error": "no result from the search child"}


_cache = {}


def anchors(ctx, which, n_arcs, per_type=3):
    """Anchors found by the comparison-operand search for this shard (deterministic in ctx.shard_seed), balanced by
    type. Counted in the evidence; an empty result is not an error (the stage using it falls back to its other anchors)."""
    from lib import boundary
    key = (which, ctx.shard_seed, n_arcs)
    if key in _cache:
        return _cache[key]
    res = discover(which, boundary.draw_arcs(ctx.shard_seed ^ 0x5EED, n_arcs))
    by = {}
    for a in res.get("anchors", []):
        by.setdefault(a["type"], []).append(a)
    out = []
    for t, lst in sorted(by.items()):
        out.extend(lst[:per_type * 2])
    ctx.col.count(f"cmp_anchor_types_{which}", len(by))
    ctx.col.count(f"cmp_anchors_{which}", len(out))
    if res.get("error"):
        ctx.col.count("cmp_search_error")
    _cache[key] = out
    return out
