"""Pristine fork server (C17 oracle, cold-cache runs of C16).

A Zygote is forked from a process that has imported a5 but has not yet called into it. For every request the zygote
forks a grandchild, which evaluates `module.function(payload)` in that pristine state and sends the pickled result back.
So each request is answered by what is, for a5, a fresh interpreter (import-time state only), at ~1 ms per call.
"""
import importlib
import os
import pickle
import struct
import sys


def encode(x):
    """Bit-exact, hashable, JSON-friendly encoding of API values (floats by hex, container types kept)."""
    if isinstance(x, bool) or x is None or isinstance(x, (int, str)):
        return x
    if isinstance(x, float):
        return "f:" + x.hex()
    if isinstance(x, tuple):
        return ["t"] + [encode(v) for v in x]
    if isinstance(x, list):
        return ["l"] + [encode(v) for v in x]
    if isinstance(x, dict):
        return ["d"] + [[encode(k), encode(v)] for k, v in sorted(x.items(), key=lambda kv: repr(kv[0]))]
    return "r:" + repr(x)


def _send(fd, obj):
    data = pickle.dumps(obj)
    os.write(fd, struct.pack("<Q", len(data)))
    off = 0
    while off < len(data):
        off += os.write(fd, data[off:off + 65536])


def _recv(fd):
    hdr = b""
    while len(hdr) < 8:
        chunk = os.read(fd, 8 - len(hdr))
        if not chunk:
            raise EOFError("peer closed")
        hdr += chunk
    n = struct.unpack("<Q", hdr)[0]
    buf = bytearray()
    while len(buf) < n:
        chunk = os.read(fd, min(1 << 20, n - len(buf)))
        if not chunk:
            raise EOFError("peer closed")
        buf += chunk
    return pickle.loads(bytes(buf))


class Zygote:
    def __init__(self):
        import a5  # noqa: F401  (import-time state only)
        req_r, req_w = os.pipe()
        res_r, res_w = os.pipe()
        pid = os.fork()
        if pid == 0:
            os.close(req_w)
            os.close(res_r)
            try:
                self._serve(req_r, res_w)
            finally:
                os._exit(0)
        os.close(req_r)
        os.close(res_w)
        self.pid, self.req_w, self.res_r = pid, req_w, res_r

    @staticmethod
    def _serve(req_r, res_w):
        while True:
            try:
                req = _recv(req_r)
            except EOFError:
                return
            if req is None:
                return
            r, w = os.pipe()
            pid = os.fork()
            if pid == 0:
                os.close(r)
                try:
                    mod, fn, payload = req
                    out = ("ok", getattr(importlib.import_module(mod), fn)(payload))
                except BaseException as e:  # noqa: BLE001
                    out = ("harness_exc", f"{type(e).__name__}: {e}")
                try:
                    _send(w, out)
                finally:
                    os._exit(0)
            os.close(w)
            try:
                out = _recv(r)
            except EOFError:
                out = ("harness_exc", "grandchild died")
            os.close(r)
            os.waitpid(pid, 0)
            _send(res_w, out)

    def call(self, mod, fn, payload):
        _send(self.req_w, (mod, fn, payload))
        status, val = _recv(self.res_r)
        if status != "ok":
            raise RuntimeError(f"fork oracle failure: {val}")
        return val

    def close(self):
        try:
            _send(self.req_w, None)
        except OSError:
            pass
        for fd in (self.req_w, self.res_r):
            try:
                os.close(fd)
            except OSError:
                pass
        try:
            os.waitpid(self.pid, 0)
        except ChildProcessError:
            pass


# ---------------------------------------------------------------------------------------------
# API call descriptions (JSON-able) shared by C16 and C17
# ---------------------------------------------------------------------------------------------

def _thaw(x):
    """JSON args -> python args: ["t", ...] marks a tuple, {"__opts__": {...}} an options dict."""
    if isinstance(x, list):
        if x and x[0] == "t":
            return tuple(_thaw(v) for v in x[1:])
        if x and x[0] == "l":
            return [_thaw(v) for v in x[1:]]
        return [_thaw(v) for v in x]
    if isinstance(x, dict):
        return {k: _thaw(v) for k, v in x.items()}
    return x


def api_call(call):
    """call = [name, arg, ...] -> value (exceptions propagate)."""
    import a5
    fn = getattr(a5, call[0])
    return fn(*[_thaw(a) for a in call[1:]])


def api_result(call):
    """-> ('ok', encoded value) | ('exc', 'Type: msg')"""
    try:
        return ("ok", encode(api_call(call)))
    except Exception as e:  # noqa: BLE001
        return ("exc", f"{type(e).__name__}: {e}")
