"""Harness-owned scheduler for C16: deterministic preemption of one API call by another.

run_preempted(callA, callB, k) runs callA under a sys.settrace tracer that counts `line` (or `opcode`) events in frames
whose code lives under the a5 package. Just before the k-th such event executes, tracing is switched off, callB is run to
completion on the spot, and callA resumes. a5 keeps no thread-local state, so this is exactly the schedule "thread 1 is
preempted at that point, thread 2 runs B to completion, thread 1 resumes" (context bound 2), made replayable as (A, B, k).
"""
import os
import sys


def _a5_root():
    import a5
    return os.path.dirname(os.path.abspath(a5.__file__)) + os.sep


def count_events(callA, opcodes=False):
    """-> (number of events N_A, result of A)."""
    n, res, _ = run_preempted(callA, None, -1, opcodes)
    return n, res


def run_preempted(callA, callB, k, opcodes=False, only_files=None, only_codes=None):
    """-> (events seen before firing or in total, resA, resB, where) ; resX = ('ok', value) | ('exc', 'Type: msg')."""
    root = _a5_root()
    state = {"count": 0, "fired": False, "resB": None, "where": None}
    want = "opcode" if opcodes else "line"

    def local(frame, event, arg):
        if state["fired"]:
            return None
        if event == want:
            if state["count"] == k and callB is not None:
                state["fired"] = True
                state["where"] = f"{frame.f_code.co_filename[len(root):]}:{frame.f_lineno} ({frame.f_code.co_name})"
                sys.settrace(None)
                state["resB"] = _safe(callB)
                return None
            state["count"] += 1
        return local

    def glob(frame, event, arg):
        if state["fired"]:
            return None
        if event == "call" and frame.f_code.co_filename.startswith(root):
            if only_files is not None and frame.f_code.co_filename not in only_files:
                return None
            if only_codes is not None and frame.f_code not in only_codes:
                return None
            if opcodes:
                frame.f_trace_opcodes = True
            return local
        return None

    sys.settrace(glob)
    try:
        resA = _safe(callA)
    finally:
        sys.settrace(None)
    return state["count"], resA, (state["resB"], state["where"], state["fired"])


def _safe(fn):
    try:
        return ("ok", fn())
    except Exception as e:  # noqa: BLE001
        return ("exc", f"{type(e).__name__}: {e}")


def trace_lines(callA):
    """-> (list of (relative file, line) line events of callA inside the a5 package, result)."""
    root = _a5_root()
    seq = []

    def local(frame, event, arg):
        if event == "line":
            seq.append((frame.f_code.co_filename[len(root):], frame.f_lineno))
        return local

    def glob(frame, event, arg):
        if event == "call" and frame.f_code.co_filename.startswith(root):
            return local
        return None

    sys.settrace(glob)
    try:
        res = _safe(callA)
    finally:
        sys.settrace(None)
    return seq, res
