"""Independent spherical geometry for the oracles (DESIGN.md §4.2).

Nothing here imports a5. Points are (lon_deg, lat_deg) geodetic WGS84 coordinates, as the public API
takes and returns them. Internally a point becomes (lam, th): longitude in radians and *authalic
colatitude* in radians, the latter computed with full relative precision next to both poles.
All proximity computations work from differences (d lon, d colat), never by interpolating lon/lat.
"""
import math

# --------------------------------------------------------------------------------------------
# WGS84 authalic latitude, closed form
# --------------------------------------------------------------------------------------------
_F = 1 / 298.257223563
E2 = _F * (2 - _F)
E = math.sqrt(E2)


def _q(s):
    """q(phi) with s = sin(phi) (Snyder 3-12)."""
    return (1 - E2) * (s / (1 - E2 * s * s) + math.atanh(E * s) / E)


QP = _q(1.0)

# 12-point Gauss-Legendre nodes/weights on [-1, 1]
_GL_X = [0.1252334085114689, 0.3678314989981802, 0.5873179542866175, 0.7699026741943047,
         0.9041172563704749, 0.9815606342467192]
_GL_W = [0.2491470458134028, 0.2334925365383548, 0.2031674267230659, 0.1600783285433462,
         0.1069393259953184, 0.0471753363865118]


def _qp_minus_q(u):
    """q_p - q(s) for s = 1 - u, as the integral of q'(t) = 2(1-e^2)/(1-e^2 t^2)^2 over [1-u, 1].
    No cancellation: relative accuracy ~1e-16 for any u in [0, 1]."""
    half = 0.5 * u
    mid = 1.0 - half
    acc = 0.0
    for x, w in zip(_GL_X, _GL_W):
        for sx in (x, -x):
            t = mid + half * sx
            d = 1 - E2 * t * t
            acc += w / (d * d)
    return 2 * (1 - E2) * acc * half


def auth_colat_from_geod_colat(thg):
    """Authalic colatitude (from the north pole) for geodetic colatitude thg in [0, pi]."""
    if thg > math.pi / 2:
        return math.pi - auth_colat_from_geod_colat(math.pi - thg)
    if thg < 1e-30:
        return thg * _POLE_RATIO          # linear regime (avoids underflow of sin^2)
    sh = math.sin(0.5 * thg)
    u = 2 * sh * sh                       # 1 - sin(phi) = 1 - cos(thg)
    x = _qp_minus_q(u) / (2 * QP)         # = sin^2(tha / 2)
    return 2 * math.asin(math.sqrt(x))


_POLE_RATIO = 1.0
_POLE_RATIO = auth_colat_from_geod_colat(1e-20) / 1e-20


def geod_colat(lat_deg):
    """Geodetic colatitude in radians; 90 - lat is exact in floating point close to the pole."""
    if lat_deg >= 0:
        return math.radians(90.0 - lat_deg)
    return math.pi - math.radians(90.0 + lat_deg)


def auth_colat(lat_deg):
    if lat_deg >= 0:
        return auth_colat_from_geod_colat(math.radians(90.0 - lat_deg))
    return math.pi - auth_colat_from_geod_colat(math.radians(90.0 + lat_deg))


def authalic_lat_closed(phi):
    """Authalic latitude (radians) of geodetic latitude phi (radians), closed form via colatitudes."""
    if phi >= 0:
        return math.pi / 2 - auth_colat_from_geod_colat(math.pi / 2 - phi)
    return -(math.pi / 2 - auth_colat_from_geod_colat(math.pi / 2 + phi))


def geod_colat_from_auth_colat(tha):
    """Inverse of auth_colat_from_geod_colat (multiplicative fixed point, keeps relative precision)."""
    if tha > math.pi / 2:
        return math.pi - geod_colat_from_auth_colat(math.pi - tha)
    if tha == 0:
        return 0.0
    if tha < 1e-30:
        return tha / _POLE_RATIO
    thg = tha
    for _ in range(12):
        cur = auth_colat_from_geod_colat(thg)
        thg = thg * (tha / cur)
    return thg


# --------------------------------------------------------------------------------------------
# points
# --------------------------------------------------------------------------------------------

def sph(p):
    """(lon_deg, lat_deg) -> (lon_deg kept for differences, authalic colatitude from the north pole,
    authalic colatitude from the south pole); the one measured from the nearer pole carries full
    relative precision."""
    lat = p[1]
    if lat >= 0:
        thn = auth_colat_from_geod_colat(math.radians(90.0 - lat))
        return (p[0], thn, math.pi - thn)
    ths = auth_colat_from_geod_colat(math.radians(90.0 + lat))
    return (p[0], math.pi - ths, ths)


def dlam(lon_v, lon_p):
    """Longitude difference in radians, reduced to [-pi, pi]."""
    return math.radians(math.remainder(lon_v - lon_p, 360.0))


def vec(p):
    lon, lat = p
    th = auth_colat(lat)
    lam = math.radians(lon)
    s = math.sin(th)
    return (s * math.cos(lam), s * math.sin(lam), math.cos(th))


def vec_to_lonlat(v):
    x, y, z = v
    tha = math.atan2(math.hypot(x, y), z)
    lon = math.degrees(math.atan2(y, x))
    if tha <= math.pi / 2:
        lat = 90.0 - math.degrees(geod_colat_from_auth_colat(tha))
    else:
        lat = -90.0 + math.degrees(geod_colat_from_auth_colat(math.pi - tha))
    return (lon, lat)


def gc_dist(p, q):
    """Great-circle distance (radians, on the authalic sphere) from differences; accurate when tiny."""
    _, pn, ps_ = sph(p)
    _, qn, qs_ = sph(q)
    dl = dlam(q[0], p[0])
    a = math.sin(0.5 * (qn - pn)) if pn <= math.pi / 2 else math.sin(0.5 * (qs_ - ps_))
    b = math.sin(0.5 * dl)
    h = a * a + math.sin(pn if pn <= math.pi / 2 else ps_) * math.sin(qn if qn <= math.pi / 2 else qs_) * b * b
    return 2 * math.asin(min(1.0, math.sqrt(h)))


def local_xy(p_sph, v_sph, kind="gnomonic"):
    """Tangent-plane coordinates of v about p. p_sph, v_sph = (lon_deg, auth colat).
    Returns (x, y, cosc). gnomonic: great circles -> straight lines. lambert: equal area."""
    lon_p, thp, thp_s = p_sph
    lon_v, thv, thv_s = v_sph
    dl = dlam(lon_v, lon_p)
    sh = math.sin(0.5 * dl)
    s2 = 2 * sh * sh
    if thp <= math.pi / 2:
        sv = math.sin(thv) if thv <= math.pi / 2 else math.sin(thv_s)
        x = sv * math.sin(dl)
        y = math.sin(thp - thv) + math.cos(thp) * sv * s2
        cosc = math.cos(thp - thv) - math.sin(thp) * sv * s2
    else:
        # mirror through the equator so that colatitudes are measured from the nearer (south) pole
        sv = math.sin(thv_s) if thv_s <= math.pi / 2 else math.sin(thv)
        x = sv * math.sin(dl)
        y = -(math.sin(thp_s - thv_s) + math.cos(thp_s) * sv * s2)
        cosc = math.cos(thp_s - thv_s) - math.sin(thp_s) * sv * s2
    if kind == "gnomonic":
        if cosc <= 1e-9:
            return (float("inf"), float("inf"), cosc)
        return (x / cosc, y / cosc, cosc)
    k = math.sqrt(2.0 / (1.0 + cosc)) if cosc > -1 else float("inf")
    return (x * k, y * k, cosc)


def _seg_dist(ax, ay, bx, by):
    """Distance from the origin to segment a-b."""
    dx, dy = bx - ax, by - ay
    dd = dx * dx + dy * dy
    if dd == 0:
        return math.hypot(ax, ay)
    t = -(ax * dx + ay * dy) / dd
    t = 0.0 if t < 0 else (1.0 if t > 1 else t)
    return math.hypot(ax + t * dx, ay + t * dy)


def ring_margin(p, ring):
    """Is p inside the (open or closed) lon/lat ring, great-circle edges?  -> (inside, margin_rad, winding)

    margin is the distance from p to the nearest edge measured in the gnomonic plane about p
    (equal to the angular distance to first order for small margins). Any ring vertex >= ~90 deg
    from p => (False, large)."""
    ps = sph(p)
    pts = []
    for v in ring:
        x, y, cosc = local_xy(ps, sph(v))
        if cosc <= 1e-9:
            return (False, math.pi / 2, 0)
        pts.append((x, y))
    if len(pts) > 1 and pts[0] == pts[-1]:
        pts = pts[:-1]
    n = len(pts)
    wn = 0
    dmin = float("inf")
    for i in range(n):
        ax, ay = pts[i]
        bx, by = pts[(i + 1) % n]
        d = _seg_dist(ax, ay, bx, by)
        if d < dmin:
            dmin = d
        # winding number of the origin
        if ay <= 0:
            if by > 0 and (ax * by - ay * bx) > 0:
                wn += 1
        else:
            if by <= 0 and (ax * by - ay * bx) < 0:
                wn -= 1
    return (wn != 0, dmin, wn)


def nearest_edge_index(p, ring):
    ps = sph(p)
    pts = [local_xy(ps, sph(v))[:2] for v in ring]
    n = len(pts)
    best = (float("inf"), -1)
    for i in range(n):
        d = _seg_dist(pts[i][0], pts[i][1], pts[(i + 1) % n][0], pts[(i + 1) % n][1])
        if d < best[0]:
            best = (d, i)
    return best


# --------------------------------------------------------------------------------------------
# cell sizes and tolerances
# --------------------------------------------------------------------------------------------

def ncells(res):
    return 12 if res == 0 else 60 * 4 ** (res - 1)


def cell_width(res):
    """L(r) = sqrt(4 pi / N(r)) radians."""
    return math.sqrt(4 * math.pi / ncells(res))


def edge_tol(k, res):
    """Relative (in cell widths) deviation allowed between the k-segment ring and the true curved edge."""
    return 0.05 / (k * k) + 2e-3 / k + 1e-14 / cell_width(res)


# --------------------------------------------------------------------------------------------
# areas
# --------------------------------------------------------------------------------------------

def _cross(a, b):
    return (a[1] * b[2] - a[2] * b[1], a[2] * b[0] - a[0] * b[2], a[0] * b[1] - a[1] * b[0])


def _dot(a, b):
    return a[0] * b[0] + a[1] * b[1] + a[2] * b[2]


def _norm(a):
    n = math.sqrt(_dot(a, a))
    return (a[0] / n, a[1] / n, a[2] / n)


def area_3d(ring):
    """Signed area (steradians, CCW seen from outside = positive) of a lon/lat ring with great-circle
    edges: Van Oosterom-Strackee fan about the normalised vertex centroid."""
    vs = [vec(p) for p in ring]
    if len(vs) > 1 and ring[0] == ring[-1]:
        vs = vs[:-1]
    return area_3d_vecs(vs)


def area_3d_vecs(vs):
    n = len(vs)
    c = _norm((sum(v[0] for v in vs), sum(v[1] for v in vs), sum(v[2] for v in vs)))
    total = 0.0
    # det[c, a, b] = det[c, a - c, b - c]: taking the determinant on differences from the centroid keeps
    # full relative precision for polygons that are tiny compared with the sphere
    ds = [(v[0] - c[0], v[1] - c[1], v[2] - c[2]) for v in vs]
    for i in range(n):
        a = vs[i]
        b = vs[(i + 1) % n]
        num = _dot(c, _cross(ds[i], ds[(i + 1) % n]))
        den = 1 + _dot(c, a) + _dot(a, b) + _dot(b, c)
        total += 2 * math.atan2(num, den)
    return total


def area_lambert(ring, centre=None):
    """Signed area (steradians) by a Lambert azimuthal equal-area projection about `centre`
    (default: first vertex) built from differences; exact for the polygon with straight Lambert-plane
    edges, which differs from great-circle edges by O(edge^2) relative."""
    if len(ring) > 1 and ring[0] == ring[-1]:
        ring = ring[:-1]
    if centre is None:
        centre = ring[0]
    cs = sph(centre)
    pts = [local_xy(cs, sph(v), kind="lambert")[:2] for v in ring]
    n = len(pts)
    s = 0.0
    # shoelace on coordinates relative to the first point (reduces cancellation)
    x0, y0 = pts[0]
    for i in range(n):
        ax, ay = pts[i][0] - x0, pts[i][1] - y0
        bx, by = pts[(i + 1) % n][0] - x0, pts[(i + 1) % n][1] - y0
        s += ax * by - ay * bx
    return 0.5 * s


def ring_area(ring, res=None, centre=None):
    """Best signed area for a cell ring: Lambert-from-differences for small cells, 3-D for large ones."""
    if res is not None and res >= 9:
        return area_lambert(ring, centre)
    return area_3d(ring)


# --------------------------------------------------------------------------------------------
# planar helpers (ring simplicity etc.), in a tangent plane about a centre
# --------------------------------------------------------------------------------------------

def ring_to_plane(ring, centre, kind="gnomonic"):
    cs = sph(centre)
    return [local_xy(cs, sph(v), kind)[:2] for v in ring]


def signed_area_planar(pts):
    n = len(pts)
    x0, y0 = pts[0]
    s = 0.0
    for i in range(n):
        ax, ay = pts[i][0] - x0, pts[i][1] - y0
        bx, by = pts[(i + 1) % n][0] - x0, pts[(i + 1) % n][1] - y0
        s += ax * by - ay * bx
    return 0.5 * s


def _orient(a, b, c):
    return (b[0] - a[0]) * (c[1] - a[1]) - (b[1] - a[1]) * (c[0] - a[0])


def segments_cross(a, b, c, d):
    """Proper or touching intersection of closed segments ab and cd."""
    o1 = _orient(a, b, c)
    o2 = _orient(a, b, d)
    o3 = _orient(c, d, a)
    o4 = _orient(c, d, b)
    if ((o1 > 0) != (o2 > 0)) and ((o3 > 0) != (o4 > 0)) and o1 != 0 and o2 != 0 and o3 != 0 and o4 != 0:
        return True

    def on(p, q, r):
        return min(p[0], q[0]) <= r[0] <= max(p[0], q[0]) and min(p[1], q[1]) <= r[1] <= max(p[1], q[1])
    if o1 == 0 and on(a, b, c):
        return True
    if o2 == 0 and on(a, b, d):
        return True
    if o3 == 0 and on(c, d, a):
        return True
    if o4 == 0 and on(c, d, b):
        return True
    return False


def ring_is_simple(pts):
    """No two non-adjacent edges of the (open) planar ring intersect; no repeated vertex. O(n^2)."""
    n = len(pts)
    if len(set(pts)) != n:
        return False
    for i in range(n):
        a, b = pts[i], pts[(i + 1) % n]
        for j in range(i + 1, n):
            if j == i or (j + 1) % n == i or (i + 1) % n == j:
                continue
            c, d = pts[j], pts[(j + 1) % n]
            if segments_cross(a, b, c, d):
                return False
    return True


def ring_is_simple_grid(pts):
    """Same verdict as ring_is_simple, in about O(n): edges are bucketed on a uniform grid whose pitch is the longest
    edge's extent, and only edges sharing a bucket are tested against each other."""
    n = len(pts)
    if len(set(pts)) != n:
        return False
    h = 0.0
    for i in range(n):
        a, b = pts[i], pts[(i + 1) % n]
        h = max(h, abs(a[0] - b[0]), abs(a[1] - b[1]))
    if not (h > 0.0) or not math.isfinite(h):
        return False
    x0 = min(p[0] for p in pts)
    y0 = min(p[1] for p in pts)
    buckets = {}
    for i in range(n):
        a, b = pts[i], pts[(i + 1) % n]
        ix0, ix1 = sorted((int((a[0] - x0) / h), int((b[0] - x0) / h)))
        iy0, iy1 = sorted((int((a[1] - y0) / h), int((b[1] - y0) / h)))
        for ix in range(ix0, ix1 + 1):
            for iy in range(iy0, iy1 + 1):
                buckets.setdefault((ix, iy), []).append(i)
    done = set()
    for members in buckets.values():
        m = len(members)
        for u in range(m):
            i = members[u]
            for v in range(u + 1, m):
                j = members[v]
                if (j + 1) % n == i or (i + 1) % n == j or (i, j) in done:
                    continue
                done.add((i, j))
                if segments_cross(pts[i], pts[(i + 1) % n], pts[j], pts[(j + 1) % n]):
                    return False
    return True


# --------------------------------------------------------------------------------------------
# the dodecahedral frame (used only to aim generators and to classify cases)
# --------------------------------------------------------------------------------------------
LON_OFFSET = 93.0


def _frame():
    centres = [(0.0, 0.0, 1.0)]
    t = math.atan(2.0)
    for i in range(5):
        a = math.radians(72 * i)
        centres.append((math.sin(t) * math.cos(a), math.sin(t) * math.sin(a), math.cos(t)))
        a2 = math.radians(72 * i + 36)
        centres.append((math.sin(t) * math.cos(a2), math.sin(t) * math.sin(a2), -math.cos(t)))
    centres.append((0.0, 0.0, -1.0))
    adj = math.cos(t) + 1e-9       # adjacent centres are atan(2) apart
    n = len(centres)
    mids, verts = [], []
    for i in range(n):
        for j in range(i + 1, n):
            if _dot(centres[i], centres[j]) > adj - 1e-6:
                mids.append(_norm(tuple(centres[i][k] + centres[j][k] for k in range(3))))
                for l in range(j + 1, n):
                    if _dot(centres[i], centres[l]) > adj - 1e-6 and _dot(centres[j], centres[l]) > adj - 1e-6:
                        verts.append(_norm(tuple(centres[i][k] + centres[j][k] + centres[l][k] for k in range(3))))
    assert len(mids) == 30 and len(verts) == 20, (len(mids), len(verts))
    return centres, verts, mids


FACE_CENTRES, FACE_VERTICES, EDGE_MIDPOINTS = _frame()
FRAME = FACE_CENTRES + FACE_VERTICES + EDGE_MIDPOINTS     # 62 unit vectors in the library's theta frame


def frame_to_lonlat(v):
    """Unit vector in the library's (theta, phi) frame -> geodetic (lon, lat)."""
    lon, lat = vec_to_lonlat(v)
    return (math.remainder(lon - LON_OFFSET, 360.0), lat)


def lonlat_to_frame(p):
    """geodetic (lon, lat) -> unit vector in the library's theta frame (authalic sphere)."""
    return vec((p[0] + LON_OFFSET, p[1]))


def offset_point(base, d, bearing):
    """Unit vector at angular distance d and bearing from unit vector base (3-D construction)."""
    bx, by, bz = base
    # tangent basis
    if abs(bz) < 0.9:
        e1 = _norm(_cross((0.0, 0.0, 1.0), base))
    else:
        e1 = _norm(_cross((1.0, 0.0, 0.0), base))
    e2 = _cross(base, e1)
    cb, sb = math.cos(bearing), math.sin(bearing)
    cd, sd = math.cos(d), math.sin(d)
    t = (e1[0] * cb + e2[0] * sb, e1[1] * cb + e2[1] * sb, e1[2] * cb + e2[2] * sb)
    return (bx * cd + t[0] * sd, by * cd + t[1] * sd, bz * cd + t[2] * sd)


def nearest_frame(p):
    """(distance rad, index into FRAME) of the nearest frame point to geodetic point p."""
    v = lonlat_to_frame(p)
    best = (9.0, -1)
    for i, f in enumerate(FRAME):
        c = _cross(v, f)
        d = math.atan2(math.sqrt(_dot(c, c)), _dot(v, f))
        if d < best[0]:
            best = (d, i)
    return best


def slerp_vec(a, b, t):
    """Point at fraction t on the great circle from a to b (unit vectors)."""
    c = _cross(a, b)
    w = math.atan2(math.sqrt(_dot(c, c)), _dot(a, b))
    if w < 1e-15:
        return _norm(tuple(a[i] + t * (b[i] - a[i]) for i in range(3)))
    s = math.sin(w)
    wa = math.sin((1 - t) * w) / s
    wb = math.sin(t * w) / s
    return _norm(tuple(wa * a[i] + wb * b[i] for i in range(3)))


def toward(p, q, frac):
    """Geodetic point at fraction `frac` of the way from p to q, built from local differences about p
    (keeps precision for tiny cells, valid at the poles)."""
    ps = sph(p)
    x, y, _ = local_xy(ps, sph(q), kind="gnomonic")
    return from_local(p, x * frac, y * frac)


def from_local(p, x, y):
    """Inverse gnomonic about p: tangent-plane offset (x east, y north; radians) -> geodetic point."""
    thp = auth_colat(p[1])
    rho = math.hypot(x, y)
    if rho == 0:
        return (p[0], p[1])
    c = math.atan(rho)
    sc, cc = math.sin(c), math.cos(c)
    sp, cp = math.cos(thp), math.sin(thp)          # sin(lat), cos(lat) of the authalic latitude
    # standard inverse gnomonic (Snyder 20-14, 20-15), colatitude obtained via a stable form
    sin_lat = cc * sp + y * sc * cp / rho
    # east/north components to get the new colatitude with good relative precision near the pole:
    # use 3-D construction instead
    lam0 = math.radians(p[0])
    east = (-math.sin(lam0), math.cos(lam0), 0.0)
    north = (-sp * math.cos(lam0), -sp * math.sin(lam0), cp)
    base = (cp * math.cos(lam0), cp * math.sin(lam0), sp)
    v = tuple(base[i] * cc + (east[i] * x + north[i] * y) / rho * sc for i in range(3))
    del sin_lat
    lon, lat = vec_to_lonlat(v)
    return (lon, lat)
