"""Complete enumeration of all antichains of a bounded sub-hierarchy that spans every aperture
(world; 12 faces; 5 segments; 4-way Hilbert levels), used by C08 and C09.

Sub-hierarchy (thorough): world; faces 0 and 1 expandable into their 5 segments; segment q=0 of face 0 and of face 1
expandable into 4 res-2 children; child 0 of (face 0, q 0) expandable into 4 res-3 grandchildren; the other ten faces
appear only in the patterns all / none / exactly one missing. Quick: the same without grandchildren and with face 1's
segments not expandable.
"""
import itertools

from lib import refids


def _subsets(items):
    for mask in range(1 << len(items)):
        yield tuple(x for i, x in enumerate(items) if mask >> i & 1)


def _node_options(cid, expand):
    """All antichains of the sub-tree rooted at cid: () | (cid,) | non-empty antichains of expanded children.
    `expand(cid)` -> list of children ids or None when the node is a leaf of the sub-hierarchy."""
    opts = [(), (cid,)]
    kids = expand(cid)
    if kids:
        per_kid = [_node_options(k, expand) for k in kids]
        for combo in itertools.product(*per_kid):
            flat = tuple(x for part in combo for x in part)
            if flat:
                opts.append(flat)
    return opts


def build(tier):
    f0, f1 = refids.enc(0, 0), refids.enc(0, 1)
    s00, s10 = refids.enc(1, 0, 0), refids.enc(1, 1, 0)
    c000 = refids.enc(2, 0, 0, 0)
    expandable = {f0: refids.children(f0, 1), s00: refids.children(s00, 2)}
    if tier == "thorough":
        expandable[f1] = refids.children(f1, 1)
        expandable[s10] = refids.children(s10, 2)
        expandable[c000] = refids.children(c000, 3)
    else:
        expandable[f1] = refids.children(f1, 1)

    def expand(cid):
        return expandable.get(cid)

    opts0 = _node_options(f0, expand)
    opts1 = _node_options(f1, expand)
    others = [refids.enc(0, f) for f in range(2, 12)]
    pats = [tuple(others), ()] + [tuple(x for x in others if x != miss) for miss in others]
    return opts0, opts1, pats


def count(tier):
    o0, o1, p = build(tier)
    return len(o0) * len(o1) * len(p) + 1


def enumerate_shard(tier, shard, nshards):
    """Yields lists of cell ids. The world-alone antichain is yielded by shard 0."""
    o0, o1, pats = build(tier)
    if shard == 0:
        yield [0]
    for i, a in enumerate(o0):
        if i % nshards != shard:
            continue
        for b in o1:
            ab = a + b
            for p in pats:
                yield list(ab + p)
