"""Coverage-guided secondary engine: atheris (libFuzzer) on the same judge as the Hypothesis stages.

libFuzzer ends the process itself, so every campaign runs in a child process:
    python -m lib.fuzz PROP SEED RUNS WORKDIR
The child decodes bytes into a case with the check module's `decode_case(fdp)`, runs `judge(case, col)`,
flushes the collector to WORKDIR/stats.json every 1000 executions and, on a Violation, writes
WORKDIR/violation.json before letting libFuzzer stop.
If atheris cannot be imported the stage is recorded as skipped (never a violation).
"""
import json
import os
import shutil
import subprocess
import sys

from lib.runner import Collector, Violation, WORK, VERIF


def run(ctx, prop, decode_case, judge, runs, seeds=()):
    """Called inside a shard. decode_case/judge are looked up again by name in the child."""
    wd = os.path.join(WORK, "fuzz", f"{prop}-{ctx.seed}-{ctx.shard}")
    shutil.rmtree(wd, ignore_errors=True)
    os.makedirs(os.path.join(wd, "corpus"))
    # half of the shards start from the empty corpus, the others from a few small valid inputs
    if ctx.shard % 2 == 1:
        for i, b in enumerate(seeds):
            with open(os.path.join(wd, "corpus", f"seed{i}"), "wb") as f:
                f.write(b)
    env = dict(os.environ)
    cmd = [sys.executable, "-m", "lib.fuzz", prop, str(ctx.shard_seed), str(runs), wd]
    try:
        p = subprocess.run(cmd, cwd=VERIF, env=env, capture_output=True, text=True, timeout=3600)
    except subprocess.TimeoutExpired:
        ctx.col.count("fuzz_inconclusive_timeout")
        return
    stats_path = os.path.join(wd, "stats.json")
    if os.path.exists(os.path.join(wd, "skipped")):
        ctx.col.count("fuzz_skipped_no_atheris")
        ctx.col.notes.append("atheris unavailable: coverage-guided stage skipped")
        return
    if os.path.exists(stats_path):
        with open(stats_path) as f:
            d = json.load(f)
        d["hashes"] = set(d["hashes"])
        d["worst"] = {k: tuple(v) for k, v in d["worst"].items()}
        # relabel classes so that the fuzz stage is visible in evidence
        d["classes"] = {"fuzz:" + k: v for k, v in d["classes"].items()}
        d["samples"] = {"fuzz:" + k: v for k, v in d["samples"].items()}
        ctx.col.merge(d)
    else:
        ctx.col.notes.append(f"fuzz child produced no stats (rc={p.returncode}): {p.stderr[-300:]}")
        ctx.col.count("fuzz_no_stats")
    vp = os.path.join(wd, "violation.json")
    if os.path.exists(vp):
        with open(vp) as f:
            v = json.load(f)
        raise Violation(v["kind"], v["case"], v.get("observed"), v.get("expected"), "found by atheris")
    shutil.rmtree(wd, ignore_errors=True)


def _child(argv):
    prop, seed, runs, wd = argv[0], int(argv[1]), int(argv[2]), argv[3]
    try:
        import atheris
    except Exception:  # noqa: BLE001
        open(os.path.join(wd, "skipped"), "w").close()
        return 0
    import importlib
    with atheris.instrument_imports(include=["a5"]):
        import a5  # noqa: F401
        import a5.core.serialization  # noqa: F401
        import a5.core.compact  # noqa: F401
        import a5.core.hex  # noqa: F401
        import a5.core.cell_info  # noqa: F401
    mod = importlib.import_module(f"checks.{prop.lower()}")
    col = Collector()
    state = {"n": 0}

    def flush():
        d = col.dump()
        d["hashes"] = list(d["hashes"])
        tmp = os.path.join(wd, "stats.json.tmp")
        with open(tmp, "w") as f:
            json.dump(d, f, default=repr)
        os.replace(tmp, os.path.join(wd, "stats.json"))

    def one(data):
        fdp = atheris.FuzzedDataProvider(data)
        try:
            case = mod.decode_case(fdp)
        except Exception:  # noqa: BLE001 - undecodable input, not a case
            return
        if case is None:
            return
        state["n"] += 1
        try:
            mod.judge(case, col)
        except Violation as v:
            with open(os.path.join(wd, "violation.json"), "w") as f:
                json.dump(v.to_dict(), f, default=repr)
            flush()
            raise
        if state["n"] % 1000 == 0 or state["n"] >= runs - 1:
            flush()

    args = [sys.argv[0], os.path.join(wd, "corpus"), f"-runs={runs}", f"-seed={seed or 1}", "-max_len=256",
            "-print_final_stats=0", "-verbosity=0", f"-artifact_prefix={wd}/"]
    atheris.Setup(args, one)
    flush()
    atheris.Fuzz()
    return 0


if __name__ == "__main__":
    sys.exit(_child(sys.argv[1:]))
