"""Independent reference model of the A5 64-bit id layout and hierarchy.

Written from the documented layout (comment block in serialization.py, RESOLUTION_MASKS in the
repository tests, property C05's `state` anchor), not from the library's code paths:

    res -1 : 0 (the world cell)
    res  0 : face            << 58 | 1 << 57
    res  1 : (5*face + q)    << 58 | 1 << 56          q = segment counted from the face's first quintant
    res r>=2, h = r-1 Hilbert levels:
             (5*face + q)    << 58 | S << (58 - 2h) | 1 << (57 - 2h)       0 <= S < 4**h

A cell is the tuple (res, face, q, S); q = 0 and S = 0 where the level has no such field.
Everything here is integer arithmetic.
"""

MAX_ENCODABLE = 29        # res 30 needs 6 + 58 bits and leaves no room for the marker
LEAF = 29                 # resolution whose cells serve as unit intervals
WORLD = 0
N_LEAF_PER_Q = 4 ** 28    # leaves under one (face, q)
N_LEAVES = 60 * N_LEAF_PER_Q

# first quintant per face, *after* the library's reordering along the curve. Copy of the data in
# origin.py (QUINTANT_FIRST permuted by ORIGIN_ORDER); cross-checked against the library at start-up
# by checks that use it (harness self-check, exit 2 on disagreement).
_QF = [4, 2, 3, 2, 0, 4, 3, 2, 2, 0, 3, 0]
_ORDER = [0, 1, 2, 4, 3, 5, 7, 8, 6, 11, 10, 9]
FIRST_QUINTANT = [_QF[_ORDER[i]] for i in range(12)]


def seg_to_q(face, segment):
    return (segment - FIRST_QUINTANT[face]) % 5


def q_to_seg(face, q):
    return (q + FIRST_QUINTANT[face]) % 5


def ncells(res):
    if res < 0:
        return 1 if res == -1 else 0
    if res == 0:
        return 12
    return 60 * 4 ** (res - 1)


def nchildren(a, b):
    """Number of descendants at resolution b of one cell of resolution a (a <= b)."""
    if b < a:
        return 0
    return ncells(b) // ncells(a)


def enc(res, face=0, q=0, S=0):
    if res == -1:
        return 0
    if not (0 <= res <= MAX_ENCODABLE):
        raise ValueError("resolution not encodable")
    if not (0 <= face < 12 and 0 <= q < 5):
        raise ValueError("face/q out of range")
    if res == 0:
        return (face << 58) | (1 << 57)
    if res == 1:
        return ((5 * face + q) << 58) | (1 << 56)
    h = res - 1
    if not (0 <= S < 4 ** h):
        raise ValueError("S out of range")
    return ((5 * face + q) << 58) | (S << (58 - 2 * h)) | (1 << (57 - 2 * h))


def dec(cid):
    """-> (res, face, q, S) or None when cid is not a valid id."""
    if cid == 0:
        return (-1, 0, 0, 0)
    if not (0 < cid < 1 << 64):
        return None
    low = cid & ((1 << 58) - 1)
    top = cid >> 58
    if low == 0:
        return None
    tz = (low & -low).bit_length() - 1      # index of the marker bit
    if tz == 57:
        return (0, top, 0, 0) if top < 12 else None
    if tz == 56:
        # bit 57 is not a Hilbert digit at res 1: a valid res-1 id has exactly the marker set
        return (1, top // 5, top % 5, 0) if (top < 60 and low == 1 << 56) else None
    if tz % 2 == 0:
        return None                          # Hilbert-level markers sit on odd bits 55, 53, ... 1
    h = (57 - tz) // 2
    if top >= 60:
        return None
    S = low >> (58 - 2 * h)
    return (h + 1, top // 5, top % 5, S)


def is_valid(cid):
    return dec(cid) is not None


def res_of(cid):
    d = dec(cid)
    if d is None:
        raise ValueError("invalid id")
    return d[0]


def parent(cid, a):
    res, face, q, S = dec(cid)
    if a > res or a < -1:
        raise ValueError
    if a == -1:
        return 0
    if a == 0:
        return enc(0, face)
    if a == 1:
        return enc(1, face, q)
    return enc(a, face, q, S >> (2 * (res - a)))


def children(cid, b):
    """Descendants at resolution b, in the hierarchy's natural order (face, q, S ascending)."""
    res, face, q, S = dec(cid)
    if b < res:
        raise ValueError
    if b == res:
        return [cid]
    faces = range(12) if res == -1 else [face]
    out = []
    for f in faces:
        if b == 0:
            out.append(enc(0, f))
            continue
        qs = range(5) if res <= 0 else [q]
        for qq in qs:
            if b == 1:
                out.append(enc(1, f, qq))
                continue
            if res <= 1:
                lo, n = 0, 4 ** (b - 1)
            else:
                n = 4 ** (b - res)
                lo = S * n
            for s in range(lo, lo + n):
                out.append(enc(b, f, qq, s))
    return out


def interval(cid):
    """Half-open range of resolution-29 leaf ordinals covered by the cell."""
    res, face, q, S = dec(cid)
    if res == -1:
        return (0, N_LEAVES)
    if res == 0:
        return (5 * face * N_LEAF_PER_Q, 5 * (face + 1) * N_LEAF_PER_Q)
    base = (5 * face + q) * N_LEAF_PER_Q
    if res == 1:
        return (base, base + N_LEAF_PER_Q)
    w = 4 ** (LEAF - res)
    return (base + S * w, base + (S + 1) * w)


def union_intervals(cells):
    """Canonical sorted list of disjoint maximal intervals covered by the cells."""
    iv = sorted(interval(c) for c in cells)
    out = []
    for lo, hi in iv:
        if out and lo <= out[-1][1]:
            if hi > out[-1][1]:
                out[-1][1] = hi
        else:
            out.append([lo, hi])
    return [tuple(x) for x in out]


def is_ancestor_or_equal(a, b):
    la, ha = interval(a)
    lb, hb = interval(b)
    return la <= lb and hb <= ha


def ref_compact(cells):
    """Set-based canonical compaction of an antichain (or any set: overlaps are absorbed first)."""
    cur = set(cells)
    # absorb descendants of present ancestors (makes the function total on overlapping input)
    if len(cur) > 1:
        by_iv = sorted(cur, key=lambda c: (interval(c)[0], -interval(c)[1]))
        keep = []
        top_hi = -1
        for c in by_iv:
            lo, hi = interval(c)
            if hi <= top_hi:
                continue
            keep.append(c)
            top_hi = hi
        cur = set(keep)
    for r in range(MAX_ENCODABLE, -1, -1):
        groups = {}
        for c in cur:
            if res_of(c) == r:
                groups.setdefault(parent(c, r - 1), []).append(c)
        need = 12 if r == 0 else (5 if r == 1 else 4)
        for p, members in groups.items():
            if len(members) == need:
                cur.difference_update(members)
                cur.add(p)
    return cur


def self_test():
    """Cheap internal consistency check of the model itself (run by checks at start-up)."""
    for res in range(-1, 6):
        for face in (0, 3, 11):
            for q in (0, 4):
                for S in ({0} if res < 2 else {0, 1, 4 ** (res - 1) - 1}):
                    if res <= 0 and q:
                        continue
                    c = enc(res, face, q, S)
                    d = dec(c)
                    exp = (res, face if res >= 0 else 0, q if res >= 1 else 0, S)
                    assert d == exp, (c, d, exp)
                    if res >= 0:
                        kids = children(c, res + 1)
                        assert len(kids) == nchildren(res, res + 1)
                        lo, hi = interval(c)
                        ivs = union_intervals(kids)
                        assert ivs == [(lo, hi)], (c, ivs, lo, hi)
                        assert all(parent(k, res) == c for k in kids)
    assert sum(1 for c in children(0, 3)) == ncells(3)
    return True
