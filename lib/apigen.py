"""Hypothesis strategies for public API calls, as JSON-able [name, arg, ...] lists (C16, C17)."""
from hypothesis import strategies as st

from lib import gens, refids

PUBLIC = ["cell_to_boundary", "cell_to_lonlat", "lonlat_to_cell", "hex_to_u64", "u64_to_hex", "cell_to_parent",
          "cell_to_children", "get_resolution", "get_res0_cells", "get_num_cells", "cell_area", "compact", "uncompact"]
GEOMETRY = {"cell_to_boundary", "cell_to_lonlat", "lonlat_to_cell"}
LISTY = {"compact", "uncompact", "cell_to_children", "get_res0_cells"}


def point_arg():
    return gens.points().map(lambda p: ["t", p["lon"], p["lat"]])


def lonlat_to_cell_calls(lo=0, hi=29):
    return st.builds(lambda p, r: ["lonlat_to_cell", p, r], point_arg(), gens.resolutions(lo, hi))


def cell_arg(lo=0, hi=29):
    return gens.cell_ids(lo, hi)


def boundary_opts():
    return st.one_of(
        st.none(),
        st.builds(lambda k, c: {k2: v for k2, v in (("segments", k), ("closed_ring", c)) if v != "omit"},
                  st.sampled_from(["omit", "auto", 1, 2, 3, 7]), st.sampled_from(["omit", True, False])))


def cell_to_boundary_calls(lo=0, hi=29):
    return st.builds(lambda c, o: ["cell_to_boundary", c] + ([o] if o is not None else []), cell_arg(lo, hi), boundary_opts())


def cell_to_lonlat_calls(lo=0, hi=29):
    return cell_arg(lo, hi).map(lambda c: ["cell_to_lonlat", c])


def geometry_calls(lo=0, hi=29):
    return st.one_of(lonlat_to_cell_calls(lo, hi), cell_to_boundary_calls(lo, hi), cell_to_lonlat_calls(lo, hi))


def hierarchy_calls():
    def parent(t, u):
        res = t[0]
        a = -1 + int(u * (res + 1.999))
        return ["cell_to_parent", refids.enc(*t), min(a, res)]

    def children(t, d):
        res = t[0]
        return ["cell_to_children", refids.enc(*t), min(29, res + d)]
    return st.one_of(
        st.builds(parent, gens.cell_tuple(0, 29), st.floats(0, 1, allow_nan=False)),
        st.builds(children, gens.cell_tuple(1, 29), st.integers(0, 3)),
        cell_arg().map(lambda c: ["get_resolution", c]),
        st.just(["get_res0_cells"]),
        st.integers(-1, 30).map(lambda r: ["get_num_cells", r]),
        st.integers(-1, 30).map(lambda r: ["cell_area", r]),
        cell_arg().map(lambda c: ["u64_to_hex", c]),
        cell_arg().map(lambda c: ["hex_to_u64", "%x" % c]),
    )


def compaction_calls():
    comp = gens.orderings(gens.antichains(max_depth=4, max_cells=40)).map(lambda cs: ["compact", ["l"] + list(cs)])

    @st.composite
    def unc(draw):
        t = draw(st.integers(0, 29))
        n = draw(st.integers(0, 4))
        cells = [draw(gens.cell_ids(max(0, t - 3), t)) for _ in range(n)]
        return ["uncompact", ["l"] + cells, t]
    return st.one_of(comp, unc())


def any_call():
    return st.one_of(geometry_calls(), geometry_calls(), hierarchy_calls(), compaction_calls())
