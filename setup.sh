#!/bin/bash
# Offline install of the harness's third-party packages into /verif/.deps (idempotent).
set -e
cd "$(dirname "$0")"
if [ -f .deps/.ok ]; then exit 0; fi
rm -rf .deps
mkdir -p .deps
PY=/venv/bin/python
$PY -m pip install --quiet --no-index --find-links /opt/veriftools/wheels --target .deps \
    hypothesis mpmath sortedcontainers attrs jsonschema >/dev/null 2>&1
# atheris is optional (secondary engine); failure to install it is recorded, not fatal
$PY -m pip install --quiet --no-index --find-links /opt/veriftools/wheels --target .deps atheris >/dev/null 2>&1 || echo "atheris unavailable" > .deps/.noatheris
PYTHONPATH=$PWD/.deps $PY -c "import hypothesis, mpmath; print('deps ok', hypothesis.__version__)"
touch .deps/.ok
